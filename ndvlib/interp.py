"""Abstract interpreter over the exported typed HIR.

One recursive evaluator; scalar operations are delegated to a pluggable domain object.
Crate-local callees are inlined (depth-bounded); operations on the abstract inner types (T, F) and
on nalgebra matrices are leaf operations chosen by the *kind of the operand values* and the
operator / method name.  Symbolic conditions are handled by a decision script: a body is evaluated
once per decision-tree leaf, each evaluation following one consistent assignment of its guards.
Loops over symbolic data are not interpreted (Unsupported)."""
import copy
from fractions import Fraction as Fr

from .poly import Poly, E, Unsupported, apply_fn


# ----------------------------------------------------------------------------- values
class Sc:
    """scalar of the abstract ring (T, F, or a primitive number)"""
    __slots__ = ("v",)

    def __init__(self, v):
        self.v = v

    def __repr__(self):
        return "Sc(%r)" % (self.v,)


class Rec:
    __slots__ = ("adt", "f")

    def __init__(self, adt, f):
        self.adt = adt
        self.f = f

    def __repr__(self):
        return "%s%r" % (self.adt, self.f)


class Opt:
    __slots__ = ("v", "some")

    def __init__(self, some, v=None):
        self.some = some
        self.v = v

    def __repr__(self):
        return "Some(%r)" % (self.v,) if self.some else "None"


class Res:
    __slots__ = ("ok", "v")

    def __init__(self, ok, v):
        self.ok = ok
        self.v = v

    def __repr__(self):
        return ("Ok(%r)" if self.ok else "Err(%r)") % (self.v,)


class Tup:
    __slots__ = ("vs",)

    def __init__(self, vs):
        self.vs = list(vs)

    def __repr__(self):
        return "(%s)" % ", ".join(map(repr, self.vs))


class Clo:
    __slots__ = ("node", "env", "interp_body")

    def __init__(self, node, env):
        self.node = node
        self.env = env


class FnV:
    """reference to a function item (path expression not in call position)"""
    __slots__ = ("callee",)

    def __init__(self, callee):
        self.callee = callee

    def __repr__(self):
        return "Fn(%s)" % self.callee.get("path")


class Mat:
    """matrix value: element poly in the free index symbols $r / $c; shape = (rows, cols) dimension names"""
    __slots__ = ("p", "shape")

    def __init__(self, p, shape):
        self.p = p
        self.shape = tuple(shape)

    def __repr__(self):
        return "Mat%s[%s]" % (self.shape, self.p.show())


class Ref:
    """mutable reference to a place (container, key)"""
    __slots__ = ("c", "k")

    def __init__(self, c, k):
        self.c = c
        self.k = k

    def get(self):
        return place_get(self.c, self.k)

    def set(self, v):
        place_set(self.c, self.k, v)

    def __repr__(self):
        return "&mut(%r)" % (self.get(),)


class BoolV:
    __slots__ = ("b",)

    def __init__(self, b):
        self.b = bool(b)

    def __repr__(self):
        return "Bool(%s)" % self.b


class Unit:
    def __repr__(self):
        return "()"


class Phantom:
    def __repr__(self):
        return "PhantomData"


class StrV:
    def __init__(self, s):
        self.s = s


class HostFn:
    """a function value implemented by the rule (used to observe what a driver passes to its closure)"""
    def __init__(self, f):
        self.f = f


class IterV:
    """an abstract iterator over a known finite list of symbolic items"""
    def __init__(self, items):
        self.items = list(items)

    def __repr__(self):
        return "Iter(%d)" % len(self.items)


class DimV:
    """a nalgebra dimension value (Const<N>, Dyn(n), U1)"""
    def __init__(self, name):
        self.name = name

    def __repr__(self):
        return "Dim(%s)" % self.name


UNIT = Unit()
PHANTOM = Phantom()


class MatElem:
    """the generic element of a matrix as a place"""
    def __init__(self, m):
        self.m = m


def fn_n(d, name, *vals):
    """n-ary opaque function as a unary one over an injective linear encoding of its arguments"""
    if len(vals) == 1:
        return d.fn(name, vals[0])
    acc = None
    for i, v in enumerate(vals):
        t = d.mul(v, d.named("#%d" % (i + 1)))
        acc = t if acc is None else d.add(acc, t)
    return d.fn(name, acc)


def place_get(c, k):
    if hasattr(c, "place_get"):
        return c.place_get(k)
    if isinstance(c, MatElem):
        return Sc(c.m.p)
    if isinstance(c, list):
        return c[k]
    if isinstance(c, Rec):
        return c.f[k]
    if isinstance(c, Opt):
        return c.v
    if isinstance(c, Tup):
        return c.vs[k]
    raise Unsupported("place_get on %r" % type(c))


def place_set(c, k, v):
    if hasattr(c, "place_set"):
        return c.place_set(k, v)
    if isinstance(c, MatElem):
        v = unref(v)
        if not isinstance(v, Sc):
            raise Unsupported("matrix element assignment of %r" % (v,))
        c.m.p = v.v
        return
    if isinstance(c, list):
        c[k] = v
    elif isinstance(c, Rec):
        c.f[k] = v
    elif isinstance(c, Opt):
        c.v = v
    elif isinstance(c, Tup):
        c.vs[k] = v
    else:
        raise Unsupported("place_set on %r" % type(c))


def unref(v):
    while isinstance(v, Ref):
        v = v.get()
    return v


def deep(v):
    """deep copy of a value (closures and function refs are shared)"""
    if isinstance(v, Rec):
        return Rec(v.adt, {k: deep(x) for k, x in v.f.items()})
    if isinstance(v, Opt):
        return Opt(v.some, deep(v.v) if v.some else None)
    if isinstance(v, Res):
        return Res(v.ok, deep(v.v))
    if isinstance(v, Tup):
        return Tup([deep(x) for x in v.vs])
    if isinstance(v, Ref):
        return deep(v.get())
    return v


# ----------------------------------------------------------------------------- control
class ReturnEx(Exception):
    def __init__(self, v):
        self.v = v


class PanicEx(Exception):
    def __init__(self, what):
        self.what = what


def _walk_expr(e):
    from .walk import walk
    return walk(e)


class PathCtx:
    """one decision-tree path: guards are answered from the script, then by default True"""

    def __init__(self, script, oracle=None, standalone=False):
        self.script = list(script)
        self.trace = []  # (key, descr, decision)
        self.known = {}
        self.oracle = oracle
        self.standalone = standalone   # not driven by explore(): a free decision would silently analyse one path only

    def decide(self, key, descr):
        if key in self.known:
            return self.known[key]
        if self.oracle is not None:
            r = self.oracle(key, descr, self)
            if r is not None:
                self.known[key] = r
                self.trace.append((key, descr, r, True))
                return r
        if self.standalone:
            raise Unsupported("data-dependent branch (%s) in code analysed as straight-line" % descr)
        i = sum(1 for t in self.trace if not t[3])
        d = self.script[i] if i < len(self.script) else True
        self.known[key] = d
        self.trace.append((key, descr, d, False))
        return d

    def free_decisions(self):
        return [(k, d, b) for (k, d, b, forced) in self.trace if not forced]


def explore(thunk, oracle=None, max_paths=64):
    """evaluate thunk(ctx) along every path of its decision tree; returns [(ctx, value-or-exception)]"""
    out = []
    pending = [[]]
    while pending:
        script = pending.pop()
        ctx = PathCtx(script, oracle)
        try:
            val = thunk(ctx)
        except PanicEx as p:
            val = p
        out.append((ctx, val))
        free = ctx.free_decisions()
        for i in range(len(script), len(free)):
            alt = [b for (_, _, b) in free[:i]] + [not free[i][2]]
            pending.append(alt)
        if len(out) > max_paths:
            raise Unsupported("too many paths")
    return out


# ----------------------------------------------------------------------------- domain A
class DomA:
    """algebraic normal form over exact rationals"""
    name = "A"

    def const(self, c):
        return Poly.const(c)

    def named(self, name):
        return Poly.sym(name)

    def add(self, a, b):
        return a + b

    def sub(self, a, b):
        return a - b

    def mul(self, a, b):
        return a * b

    def neg(self, a):
        return -a

    def div(self, a, b):
        return a * b.recip()

    def rem(self, a, b):
        raise Unsupported("rem")

    def recip(self, a):
        return a.recip()

    def exponent(self, n):
        """Poly -> exponent pair (must be a + b*n)"""
        a = Fr(0)
        b = Fr(0)
        natom = ("c", "n")
        for m, c in n.t.items():
            if m == ():
                a = c
            elif m == ((natom, (Fr(1), Fr(0))),):
                b = c
            else:
                raise Unsupported("exponent not linear in n: %s" % n.show())
        return (a, b)

    def powi(self, a, n):
        try:
            return a.pow(self.exponent(n))
        except Unsupported:
            # a general symbolic exponent: x^e = exp(e ln x)
            from .poly import apply_fn
            return apply_fn("exp", n * apply_fn("ln", a))

    powf = powi

    def fn(self, name, a):
        if name == "sqrt":
            return a.pow(E(Fr(1, 2)))
        if name == "cbrt":
            return a.pow(E(Fr(1, 3)))
        if name == "recip":
            return a.recip()
        if name == "abs":
            cv = a.const_value()
            if cv is not None:
                return Poly.const(abs(cv))
        if name == "re":
            if a.const_value() is not None:
                return a
            if all(at[0] == "c" for at in a.atoms()):
                return a   # built from float constants / parameters only
        return apply_fn(name, a)

    def fn2(self, name, a, b):
        if name == "log":
            return apply_fn("ln", a) * apply_fn("ln", b).recip()
        if name == "atan2":
            return Poly.atom(("f", "atan2", a * Poly.sym("#Y") + b * Poly.sym("#X")))
        if name == "hypot":
            return (a * a + b * b).pow(E(Fr(1, 2)))
        raise Unsupported("fn2 %s" % name)

    def key(self, a):
        return a.key()

    def show(self, a):
        return a.show()

    def concrete(self, a):
        return a.const_value()


SCALAR_FNS = {
    "exp", "exp2", "exp_m1", "ln", "log2", "log10", "ln_1p", "sin", "cos", "tan", "asin", "acos", "atan",
    "sinh", "cosh", "tanh", "asinh", "acosh", "atanh", "sqrt", "cbrt", "recip", "abs", "signum",
    "sph_j0", "sph_j1", "sph_j2", "bessel_j0", "bessel_j1", "bessel_j2",
}
IDENT_METHODS = {"clone", "to_owned", "into", "borrow", "as_ref_scalar", "re", "real", "conjugate", "from_real",
                 "simd_abs_dummy"}
PREDICATES = {"is_zero", "is_one", "is_positive", "is_negative", "is_sign_positive", "is_sign_negative",
              "is_finite", "is_nan", "is_infinite"}
FLOAT_CONSTS = {"E", "FRAC_1_PI", "FRAC_1_SQRT_2", "FRAC_2_PI", "FRAC_2_SQRT_PI", "FRAC_PI_2", "FRAC_PI_3",
                "FRAC_PI_4", "FRAC_PI_6", "FRAC_PI_8", "LN_10", "LN_2", "LOG10_E", "LOG2_E", "PI", "SQRT_2", "TAU",
                "LOG10_2", "LOG2_10"}
BINOPS = {"+": "add", "-": "sub", "*": "mul", "/": "div", "%": "rem"}
ASSIGNOPS = {"+=": "add", "-=": "sub", "*=": "mul", "/=": "div", "%=": "rem"}
OP_TRAIT = {"add": "Add", "sub": "Sub", "mul": "Mul", "div": "Div", "rem": "Rem", "neg": "Neg"}


class Interp:
    def __init__(self, facts, dom, ctx=None, hooks=None, max_depth=14, scalar_self=False, extern=None):
        self.F = facts
        self.dom = dom
        self.ctx = ctx or PathCtx([], standalone=True)
        self.hooks = hooks or []
        self.max_depth = max_depth
        self.depth = 0
        self.calls = 0
        self.inlined = []  # paths of inlined bodies (evidence)
        self.extern = extern or {}

    # ------------------------------------------------------------------ helpers
    def sc(self, c):
        return Sc(self.dom.const(c))

    def decide(self, key, descr):
        return self.ctx.decide(key, descr)

    def loc(self, e):
        try:
            return self.F.loc(e["l"])
        except Exception:
            return "?"

    def unsupported(self, what, e=None):
        raise Unsupported("%s at %s" % (what, self.loc(e) if e else "?"))

    # ------------------------------------------------------------------ calls
    def call_body(self, body, args, e=None):
        """inline a crate-local body with already evaluated argument values"""
        for h in self.hooks:
            r = h(self, body, args)
            if r is not NotImplemented:
                return r
        if self.depth >= self.max_depth:
            self.unsupported("inlining depth exceeded in %s" % body["path"], e)
        self.depth += 1
        self.calls += 1
        self.inlined.append(body["path"])
        env = {}
        saved_float = getattr(self, "float_ctx", None)
        imp = body.get("_impl")
        if imp is not None:
            st = self.F.ty(imp["self"])
            if st.get("k") == "float" or st.get("n") in ("f32", "f64") or st.get("s") in ("f32", "f64"):
                self.float_ctx = st.get("n") or st.get("s")
        try:
            params = body["params"]
            if len(params) != len(args):
                self.unsupported("arity mismatch calling %s" % body["path"], e)
            for p, a in zip(params, args):
                if not self.bind(p, a, env):
                    self.unsupported("refutable parameter pattern", e)
            try:
                return self.ev(body["body"], env)
            except ReturnEx as r:
                return r.v
        finally:
            self.depth -= 1
            self.float_ctx = saved_float

    def call_closure(self, clo, args, e=None):
        if isinstance(clo, FnV):
            return self.call_callee(clo.callee, args, e)
        if isinstance(clo, HostFn):
            return clo.f(self, args)
        if not isinstance(clo, Clo):
            self.unsupported("call of non-closure %r" % (clo,), e)
        env = dict(clo.env)
        node = clo.node
        if len(node["params"]) != len(args):
            self.unsupported("closure arity", e)
        for p, a in zip(node["params"], args):
            if not self.bind(p, a, env):
                self.unsupported("refutable closure parameter", e)
        try:
            return self.ev(node["body"], env)
        except ReturnEx as r:
            return r.v

    def callee_body(self, c):
        inst = c.get("inst")
        if inst and inst.get("local"):
            b = self.F.bodies.get(inst["did"])
            if b is not None:
                return b
        if c.get("local") and not c.get("trait"):
            return self.F.bodies.get(c["did"])
        if c.get("local") and c.get("trait") and not inst:
            # call of a local trait method that did not resolve to an impl (generic Self / T): a provided method has a body
            b = self.F.bodies.get(c["did"])
            if b is not None and getattr(self, "scalar_mode", False):
                return b
            return None
        return None

    def scalar_leaf(self, c, args):
        """scalar (real-function) mode: operations of the number interface applied to abstract scalars are leaf operations"""
        if not getattr(self, "scalar_mode", False):
            return False
        vals = [unref(a) for a in args]
        if not vals:
            return c.get("name") in ("one", "zero")
        if not all(isinstance(v, (Sc, BoolV)) for v in vals):
            return False
        tr = c.get("trait") or ""
        inst = c.get("inst") or {}
        if tr.startswith("std::ops::") or tr.startswith("num_traits::") or tr.endswith("DualNum") or tr.startswith("std::cmp::"):
            return True
        if inst.get("impl_self") is not None and self.F.adt_name(inst["impl_self"]) in self.F.adts:
            return True
        if c.get("impl_self") is not None and self.F.adt_name(c["impl_self"]) in self.F.adts and c.get("impl_trait"):
            return True
        return False

    def call_callee(self, c, args, e=None, recv_first=True):
        """call by resolved callee description with evaluated args"""
        if self.scalar_leaf(c, args):
            if not args:
                return self.sc(1 if c.get("name") == "one" else 0)
            for h in self.hooks:
                pass
            return self.leaf_call(c.get("name"), c.get("path", ""), (c.get("inst") or {}).get("path", ""), c, args, e)
        body = self.callee_body(c)
        if body is not None:
            return self.call_body(body, args, e)
        name = c.get("name")
        path = c.get("path", "")
        inst = c.get("inst") or {}
        ipath = inst.get("path", "")
        # external summaries keyed by exact path
        for key in (ipath, path):
            if key in self.extern:
                return self.extern[key](self, args, e)
        return self.leaf_call(name, path, ipath, c, args, e)

    # ------------------------------------------------------------------ leaf operations
    def leaf_call(self, name, path, ipath, c, args, e):
        d = self.dom
        a = [unref(x) for x in args]
        # ---- constructors of std enums
        if path.endswith("Option::Some") or path.endswith("::Some"):
            return Opt(True, args[0])
        if path.endswith("Result::Ok") or path.endswith("::Ok"):
            return Res(True, args[0])
        if path.endswith("Result::Err") or path.endswith("::Err"):
            return Res(False, args[0])
        # ---- associated functions without receiver on abstract types
        if not a:
            if name == "one":
                return self.sc(1)
            if name == "zero":
                return self.sc(0)
            if name == "epsilon":
                return Sc(d.named("EPS"))
            if name in FLOAT_CONSTS:
                return Sc(d.named(name))
            if name in ("min_value", "max_value", "infinity", "neg_infinity", "nan", "default_epsilon",
                        "default_max_relative", "default_max_ulps"):
                return Sc(d.named(name.upper()))
            if name == "none" or path.endswith("PhantomData"):
                return PHANTOM
            self.unsupported("nullary call %s" % path, e)
        x = a[0]
        if name in ("replace", "replace_unchecked") and isinstance(args[0], Ref) and isinstance(x, Sc) and len(a) == 3 \
                and path.endswith("SimdValue::" + name):
            args[0].set(Sc(fn_n(d, "%s@%s" % (name, d.show(a[1].v)), x.v, a[2].v)))
            return UNIT
        if path == "std::mem::replace" and isinstance(args[0], Ref):
            old_v = args[0].get()
            args[0].set(args[1])
            return old_v
        if path.endswith("MaybeUninit::<T>::new") or path.endswith("MaybeUninit::new"):
            return args[0]
        if name == "write" and "MaybeUninit" in path and len(args) == 2 and isinstance(args[0], Ref):
            args[0].set(args[1])
            return args[0]
        if name in ("any", "all") and isinstance(x, IterV) and len(args) == 2:
            res = (name == "all")
            for item in x.items:
                r = unref(self.call_closure(unref(args[1]), [item], e))
                if not isinstance(r, BoolV):
                    self.unsupported("%s predicate" % name, e)
                if name == "any" and r.b:
                    return BoolV(True)
                if name == "all" and not r.b:
                    return BoolV(False)
            return BoolV(res)
        # ---- Option / Result combinators
        if isinstance(x, Opt) and (path.startswith("std::option::Option") or path.startswith("core::option::Option")):
            return self.option_method(name, x, args, e)
        if isinstance(x, Res) and "result::Result" in path:
            return self.result_method(name, x, args, e)
        # ---- conversions
        if name in ("from", "into") and len(a) == 1:
            if path.endswith("NumCast::from"):
                return Opt(True, x)
            tgt = self.F.adt_name(e["t"]) if e is not None and "t" in e else None
            if tgt is not None and tgt in self.F.adts and isinstance(x, Sc):
                # a scalar converted into a crate type: the impl `From<F>` whose source is a type parameter / primitive float
                # (other From impls — from another number type — do not apply to a scalar)
                for imp in self.F.impls_of("From", tgt):
                    targs = imp.get("trait_args", [])
                    src = self.F.ty(targs[1]) if len(targs) > 1 and isinstance(targs[1], int) else None
                    if src is not None and src.get("k") not in ("param", "prim", "float"):
                        continue
                    b = self.F.impl_item(imp, "from")
                    if b is not None:
                        return self.call_body(b, [x], e)
            if isinstance(x, Sc):
                return x
            if isinstance(x, (Rec, Mat)):
                return x
            self.unsupported("conversion %s of %r" % (path, x), e)
        if name == "from_subset" and len(a) == 1 and isinstance(x, Sc):
            return Sc(d.fn("up", x.v)) if getattr(self, "tag_conversions", False) else x
        if name.startswith("from_") and path.startswith("num_traits::FromPrimitive") and isinstance(x, Sc):
            return Opt(True, x)
        if name == "clone" or name == "to_owned" or name == "clone_owned":
            return deep(x)
        if name == "default" and not a:
            return PHANTOM
        # ---- scalars
        if isinstance(x, Sc):
            return self.scalar_method(name, path, x, a[1:], e)
        if isinstance(x, Mat):
            return self.mat_method(name, path, x, args[1:], e)
        if isinstance(x, Tup) and name == "clone":
            return deep(x)
        if isinstance(x, BoolV):
            if name == "then" and len(args) == 2:
                return Opt(True, self.call_closure(unref(args[1]), [], e)) if x.b else Opt(False)
            if name == "then_some" and len(args) == 2:
                return Opt(True, args[1]) if x.b else Opt(False)
            if name == "not":
                return BoolV(not x.b)
            if name in ("all", "none", "any"):
                # SimdBool = bool
                return BoolV(x.b if name != "none" else not x.b)
        if isinstance(x, Tup) and ("slice" in path or "array" in path) and len(args) >= 1:
            if name == "split_first" and len(args) == 1:
                return Opt(True, Tup([x.vs[0], Tup(list(x.vs[1:]))])) if x.vs else Opt(False)
            if name == "split_last" and len(args) == 1:
                return Opt(True, Tup([x.vs[-1], Tup(list(x.vs[:-1]))])) if x.vs else Opt(False)
            if name in ("first", "last") and len(args) == 1:
                return Opt(True, x.vs[0 if name == "first" else -1]) if x.vs else Opt(False)
            if name == "len" and len(args) == 1:
                return Sc(self.dom.const(len(x.vs)))
            if name == "is_empty" and len(args) == 1:
                return BoolV(not x.vs)
        if isinstance(x, Tup) and name == "map" and len(args) == 2 and "array" in path:
            return Tup([self.call_closure(unref(args[1]), [i], e) for i in x.vs])
        if isinstance(x, Tup) and name == "each_ref" and len(args) == 1 and "array" in path:
            return x
        if isinstance(x, Tup) and name in ("iter", "into_iter") and len(args) == 1 and ("slice" in path or "array" in path or "IntoIterator" in path):
            return IterV(list(x.vs))
        if isinstance(x, IterV):
            if name == "fold" and len(args) == 3:
                acc = args[1]
                for item in x.items:
                    acc = self.call_closure(unref(args[2]), [acc, item], e)
                return acc
            if name in ("copied", "cloned", "into_iter", "iter", "by_ref") and len(args) == 1:
                return IterV([deep(i) for i in x.items]) if name in ("copied", "cloned") else x
            if name == "map" and len(args) == 2:
                return IterV([self.call_closure(unref(args[1]), [i], e) for i in x.items])
            if name in ("flat_map", "flatten") and len(args) in (1, 2):
                out = []
                for i in x.items:
                    r = unref(self.call_closure(unref(args[1]), [i], e)) if name == "flat_map" else unref(i)
                    if isinstance(r, IterV):
                        out += r.items
                    elif isinstance(r, Opt):
                        out += [r.v] if r.some else []
                    elif isinstance(r, Tup):
                        out += r.vs
                    else:
                        self.unsupported("%s item %r" % (name, r), e)
                return IterV(out)
            if name == "enumerate" and len(args) == 1:
                return IterV([Tup([Sc(self.dom.const(k)), i]) for k, i in enumerate(x.items)])
            if name == "rev" and len(args) == 1:
                return IterV(list(reversed(x.items)))
            if name in ("skip", "take") and len(args) == 2 and isinstance(unref(args[1]), Sc):
                cv = self.dom.concrete(unref(args[1]).v) if hasattr(self.dom, "concrete") else None
                if cv is not None and cv == int(cv) and cv >= 0:
                    return IterV(x.items[int(cv):] if name == "skip" else x.items[:int(cv)])
            if name == "next" and len(args) == 1 and isinstance(args[0], Ref):
                if not x.items:
                    return Opt(False)
                first = x.items.pop(0)
                return Opt(True, first)
            if name == "zip" and len(args) == 2 and isinstance(unref(args[1]), (IterV, Tup)):
                o = unref(args[1])
                oi = o.items if isinstance(o, IterV) else o.vs
                return IterV([Tup([a_, b_]) for a_, b_ in zip(x.items, oi)])
            if name == "for_each" and len(args) == 2:
                for item in x.items:
                    self.call_closure(unref(args[1]), [item], e)
                return UNIT
            if name == "try_for_each" and len(args) == 2:
                for item in x.items:
                    r = unref(self.call_closure(unref(args[1]), [item], e))
                    if isinstance(r, Res):
                        if not r.ok:
                            return r
                    elif isinstance(r, Opt):
                        if not r.some:
                            return r
                    else:
                        self.unsupported("try_for_each closure result", e)
                last = None
                return Res(True, UNIT)
            if name in ("sum", "product") and len(args) == 1 and not (x.items and all(isinstance(unref(i), Sc) for i in x.items)):
                # Iterator::sum::<S>() is S::sum(iter): dispatch to the crate's own `impl Sum for S` (owned items)
                adt = None
                if x.items and isinstance(unref(x.items[0]), Rec):
                    adt = unref(x.items[0]).adt
                elif e is not None and "t" in e:
                    adt = self.F.adt_name(e["t"])
                if adt:
                    for imp in self.F.impls_of("Sum" if name == "sum" else "Product", adt):
                        targs = imp.get("trait_args", [])
                        rt = self.F.ty(targs[1]) if len(targs) > 1 and isinstance(targs[1], int) else None
                        if rt is not None and rt["k"] == "ref":
                            continue
                        b = self.F.impl_item(imp, name)
                        if b is not None:
                            return self.call_body(b, [x], e)
                self.unsupported("iterator method %s over %r" % (name, adt), e)
            if name in ("sum", "product") and len(args) == 1 and x.items and all(isinstance(unref(i), Sc) for i in x.items):
                acc = unref(x.items[0]).v
                for i in x.items[1:]:
                    acc = (self.dom.add if name == "sum" else self.dom.mul)(acc, unref(i).v)
                return Sc(acc)
            if name == "count" and len(args) == 1:
                return Sc(self.dom.const(len(x.items)))
            if name == "collect" and len(args) == 1:
                return Tup(list(x.items))
            self.unsupported("iterator method %s" % name, e)
        if isinstance(x, Rec) and x.adt in ("std::Range", "std::RangeInclusive"):
            if name == "contains" and len(a) == 2 and isinstance(a[1], Sc):
                lo, hi = unref(x.f["start"]), unref(x.f["end"])
                if isinstance(lo, Sc) and isinstance(hi, Sc):
                    if not self.compare("<=", lo, a[1]).b:
                        return BoolV(False)
                    return self.compare("<" if x.adt == "std::Range" else "<=", a[1], hi)
            self.unsupported("range method %s" % name, e)
        if isinstance(x, Rec):
            return self.dyn_dispatch(name, c, a, args, e)
        self.unsupported("leaf call %s (%s) on %r" % (name, path, x), e)

    def scalar_method(self, name, path, x, rest, e):
        d = self.dom
        if name == "re" and not rest and not getattr(self, "scalar_mode", False):
            # DualNum::re on a value of the inner type T projects to the innermost float: a ring homomorphism T -> F that is
            # NOT the identity for nested numbers (it forgets the inner derivative parts) — kept as an opaque function
            return Sc(d.fn("re", x.v))
        if name in IDENT_METHODS or name in ("simd_abs_x",):
            return x
        if name in SCALAR_FNS and not rest:
            return Sc(d.fn(name, x.v))
        if name in ("powi", "powf") and len(rest) == 1 and isinstance(rest[0], Sc):
            return Sc(getattr(d, name)(x.v, rest[0].v))
        if name == "powd" and len(rest) == 1 and isinstance(rest[0], Sc):
            # x^y for abstract scalars: exp(y ln x) by definition
            return Sc(d.fn("exp", d.mul(d.fn("ln", x.v), rest[0].v)))
        if name in ("log", "atan2", "hypot") and len(rest) == 1 and isinstance(rest[0], Sc):
            return Sc(d.fn2(name, x.v, rest[0].v))
        if name == "sin_cos" and not rest:
            return Tup([Sc(d.fn("sin", x.v)), Sc(d.fn("cos", x.v))])
        if name == "mul_add" and len(rest) == 2:
            return Sc(d.add(d.mul(x.v, rest[0].v), rest[1].v))
        if name in BINOPS.values() and len(rest) == 1 and isinstance(rest[0], Sc):
            return Sc(getattr(d, name)(x.v, rest[0].v))
        if name == "neg" and not rest:
            return Sc(d.neg(x.v))
        if name == "inv" and not rest:
            return Sc(d.recip(x.v))
        if name in PREDICATES and not rest:
            cv = d.concrete(x.v)
            if cv is not None and name in ("is_zero", "is_one", "is_positive", "is_negative"):
                return BoolV({"is_zero": cv == 0, "is_one": cv == 1, "is_positive": cv > 0, "is_negative": cv < 0}[name])
            return BoolV(self.decide(("pred", name, d.key(x.v)), "%s(%s)" % (name, d.show(x.v))))
        if name in ("eq", "ne", "lt", "le", "gt", "ge") and len(rest) == 1 and isinstance(rest[0], Sc):
            return self.compare({"eq": "==", "ne": "!=", "lt": "<", "le": "<=", "gt": ">", "ge": ">="}[name], x, rest[0])
        if name == "partial_cmp" and len(rest) == 1:
            return OrdV(x, rest[0])
        if name in ("abs_diff_eq", "relative_eq", "ulps_eq"):
            return BoolV(self.decide(("approx", name, d.key(x.v)) + tuple(d.key(r.v) if isinstance(r, Sc) else repr(r) for r in rest),
                                     "%s(%s, ...)" % (name, d.show(x.v))))
        if name in ("is_in_subset",):
            return BoolV(self.decide(("subset", d.key(x.v)), "is_in_subset(%s)" % d.show(x.v)))
        tag = getattr(self, "tag_conversions", False)
        if name in ("to_superset", "from_subset"):
            return Sc(d.fn("up", x.v)) if tag else x
        if name in ("to_subset_unchecked", "from_superset_unchecked"):
            return Sc(d.fn("down", x.v)) if tag else x
        if name in ("to_subset", "from_superset"):
            ok = self.decide(("subset", d.key(x.v)), "is_in_subset(%s)" % d.show(x.v))
            return Opt(True, Sc(d.fn("down", x.v)) if tag else x) if ok else Opt(False)
        if name == "splat" and not rest:
            return Sc(fn_n(d, "splat", x.v))
        if name in ("extract", "extract_unchecked") and len(rest) == 1 and isinstance(rest[0], Sc):
            return Sc(fn_n(d, "%s@%s" % (name, d.show(rest[0].v)), x.v))
        if name == "select" and len(rest) == 2:
            c = rest[0]
            if isinstance(c, BoolV):
                return x if c.b else rest[1]
            if isinstance(c, Sc) and isinstance(rest[1], Sc):
                return Sc(fn_n(d, "select@%s" % d.show(c.v), x.v, rest[1].v))
        if name in ("all", "none", "any") and not rest and "SimdBool" in path:
            return BoolV(self.decide(("simdbool", name, d.key(x.v)), "%s.%s()" % (d.show(x.v), name)))
        if name == "not" and not rest:
            return Sc(d.fn("not", x.v))
        if name == "to_string":
            return StrV("<%s>" % d.show(x.v))
        if name in ("unwrap",):
            return x
        if name == "value":  # Dim::value
            return x
        self.unsupported("scalar method %s (%s)" % (name, path), e)

    def compare(self, op, a, b):
        d = self.dom
        ca, cb = d.concrete(a.v), d.concrete(b.v)
        if ca is not None and cb is not None:
            return BoolV({"==": ca == cb, "!=": ca != cb, "<": ca < cb, "<=": ca <= cb, ">": ca > cb, ">=": ca >= cb}[op])
        # normalise to a canonical atom:  (a - b) op 0 ; `>`/`>=`/`!=` are negations of `<=`/`<`/`==`
        neg = False
        if op in (">", ">=", "!="):
            neg = True
            op = {">": "<=", ">=": "<", "!=": "=="}[op]
        key = ("cmp", op, d.key(a.v), d.key(b.v))
        r = self.decide(key, "%s %s %s" % (d.show(a.v), op, d.show(b.v)))
        return BoolV(r != neg)

    def option_method(self, name, x, args, e):
        rest = args[1:]
        if name in ("as_ref", "as_mut", "as_deref", "cloned", "copied"):
            if name == "as_mut" and isinstance(args[0], Ref):
                o = x
                return Opt(True, Ref(o, "v")) if o.some else Opt(False)
            return x if name in ("as_ref", "as_mut", "as_deref") else deep(x)
        if name == "map":
            return Opt(True, self.call_closure(rest[0], [x.v], e)) if x.some else Opt(False)
        if name == "and_then":
            if not x.some:
                return Opt(False)
            r = unref(self.call_closure(rest[0], [x.v], e))
            if not isinstance(r, Opt):
                self.unsupported("and_then closure result", e)
            return r
        if name == "zip":
            o = unref(rest[0])
            if x.some and o.some:
                return Opt(True, Tup([x.v, o.v]))
            return Opt(False)
        if name in ("iter", "into_iter", "iter_mut") and not rest:
            return IterV([x.v]) if x.some else IterV([])
        if name == "map_or":
            return self.call_closure(rest[1], [x.v], e) if x.some else rest[0]
        if name == "map_or_else":
            return self.call_closure(rest[1], [x.v], e) if x.some else self.call_closure(rest[0], [], e)
        if name == "unwrap_or_else":
            return x.v if x.some else self.call_closure(rest[0], [], e)
        if name == "unwrap_or":
            return x.v if x.some else rest[0]
        if name in ("unwrap", "expect"):
            if x.some:
                return x.v
            raise PanicEx("unwrap on None")
        if name == "is_some_and":
            if not x.some:
                return BoolV(False)
            r = unref(self.call_closure(rest[0], [x.v], e))
            if isinstance(r, BoolV):
                return r
            self.unsupported("is_some_and predicate", e)
        if name == "is_none_or":
            if not x.some:
                return BoolV(True)
            r = unref(self.call_closure(rest[0], [x.v], e))
            if isinstance(r, BoolV):
                return r
            self.unsupported("is_none_or predicate", e)
        if name == "is_some":
            return BoolV(x.some)
        if name == "is_none":
            return BoolV(not x.some)
        if name == "filter":
            if not x.some:
                return Opt(False)
            r = unref(self.call_closure(rest[0], [x.v], e))
            if isinstance(r, BoolV):
                return x if r.b else Opt(False)
            self.unsupported("filter predicate", e)
        if name == "ok_or":
            return Res(True, x.v) if x.some else Res(False, rest[0])
        if name == "clone":
            return deep(x)
        self.unsupported("Option::%s" % name, e)

    def result_method(self, name, x, args, e):
        rest = args[1:]
        if name == "map":
            return Res(True, self.call_closure(rest[0], [x.v], e)) if x.ok else x
        if name in ("unwrap", "expect"):
            if x.ok:
                return x.v
            raise PanicEx("unwrap on Err")
        if name == "ok":
            return Opt(True, x.v) if x.ok else Opt(False)
        if name == "and_then":
            if not x.ok:
                return x
            r = unref(self.call_closure(rest[0], [x.v], e))
            if not isinstance(r, Res):
                self.unsupported("and_then closure result", e)
            return r
        if name == "map_err":
            return x if x.ok else Res(False, self.call_closure(rest[0], [x.v], e))
        if name == "or_else":
            return x if x.ok else self.call_closure(rest[0], [x.v], e)
        if name in ("is_ok", "is_err"):
            return BoolV(x.ok == (name == "is_ok"))
        if name == "unwrap_or":
            return x.v if x.ok else rest[0]
        if name == "unwrap_or_else":
            return x.v if x.ok else self.call_closure(rest[0], [x.v], e)
        if name == "err":
            return Opt(False) if x.ok else Opt(True, x.v)
        self.unsupported("Result::%s" % name, e)

    # ---- matrices (domain A only)
    def mat_method(self, name, path, x, rest, e):
        d = self.dom
        r0 = unref(rest[0]) if rest else None
        if name in ("clone", "clone_owned", "into_owned", "to_owned"):
            return x
        if name == "transpose" and not rest:
            return Mat(x.p.rename_idx({"$r": "$c", "$c": "$r"}), (x.shape[1], x.shape[0]))
        if name == "tr_mul" and isinstance(r0, Mat):
            return self.mat_tr_mul(x, r0, e)
        if name in ("mul", "div") and isinstance(r0, Sc):
            return Mat(getattr(d, name)(x.p, r0.v), x.shape)
        if name == "mul" and isinstance(r0, Mat):
            return self.mat_mul(x, r0, e)
        if name in ("add", "sub") and isinstance(r0, Mat):
            if x.shape != r0.shape:
                self.unsupported("matrix shape mismatch %s vs %s" % (x.shape, r0.shape), e)
            return Mat(getattr(d, name)(x.p, r0.p), x.shape)
        if name == "neg" and not rest:
            return Mat(d.neg(x.p), x.shape)
        if name == "map" and rest:
            r = unref(self.call_closure(rest[0], [Sc(x.p)], e))
            if isinstance(r, Sc):
                return Mat(r.v, x.shape)
            self.unsupported("Matrix::map closure result %r" % (r,), e)
        if name in ("zip_apply", "apply") and rest:
            clo = unref(rest[-1])
            cell = [Sc(x.p)]
            cargs = [Ref(cell, 0)]
            if name == "zip_apply":
                other = unref(rest[0])
                if not isinstance(other, Mat) or other.shape != x.shape:
                    self.unsupported("zip_apply operand", e)
                cargs.append(Sc(other.p))
            self.call_closure(clo, cargs, e)
            nv = unref(cell[0])
            if not isinstance(nv, Sc):
                self.unsupported("zip_apply element result", e)
            x.p = nv.v
            return UNIT
        if name == "iter" and not rest:
            if "0" in x.shape:
                return IterV([])      # a matrix with a zero dimension has no elements
            return IterV([Sc(x.p)])
        if name == "iter_mut" and not rest:
            if "0" in x.shape:
                return IterV([])
            return IterV([Ref(MatElem(x), 0)])     # one representative element (element-uniform)
        if name in ("get_unchecked", "get_unchecked_mut") and len(rest) == 2:
            if name == "get_unchecked_mut":
                return Ref(MatElem(x), 0)
            return Sc(x.p)
        if name == "assume_init" and not rest:
            if x.p is None:
                raise PanicEx("assume_init on an uninitialised matrix")
            return x
        if name == "value":
            return Sc(self.dom.named("dim_" + str(x)))
        if name == "shape_generic" and not rest:
            return Tup([DimV(x.shape[0]), DimV(x.shape[1])])
        if name == "shape":
            return Tup([DimV(x.shape[0]), DimV(x.shape[1])])
        self.unsupported("matrix method %s (%s)" % (name, path), e)

    def mat_mul(self, a, b, e):
        if a.shape[1] != b.shape[0]:
            self.unsupported("matmul inner dims %s %s" % (a.shape, b.shape), e)
        if a.shape[1] != "1":
            self.unsupported("contraction over a non-unit dimension", e)
        return Mat(self.dom.mul(a.p, b.p), (a.shape[0], b.shape[1]))

    def mat_tr_mul(self, a, b, e):
        if a.shape[0] != b.shape[0]:
            self.unsupported("tr_mul dims", e)
        if a.shape[0] != "1":
            self.unsupported("contraction over a non-unit dimension", e)
        ap = a.p.rename_idx({"$c": "$r"})
        return Mat(self.dom.mul(ap, b.p), (a.shape[1], b.shape[1]))

    # ---- dynamic dispatch for unresolved trait calls on crate types
    def dyn_dispatch(self, name, c, a, args, e):
        x = a[0]
        trait = c.get("trait") or ""
        tshort = trait.split("::")[-1]
        if tshort == "SupersetOf" and name in ("to_subset", "is_in_subset", "to_subset_unchecked", "from_subset"):
            # simba's blanket impl SupersetOf<SS> for SP forwards to SS: SubsetOf<SP>
            m2 = {"to_subset": "from_superset", "is_in_subset": "is_in_subset", "to_subset_unchecked": "from_superset_unchecked",
                  "from_subset": "to_superset"}[name]
            for imp in self.F.impls_of("SubsetOf", x.adt):
                b = self.F.impl_item(imp, m2)
                if b is not None:
                    return self.call_body(b, args, e)
            self.unsupported("SupersetOf forward %s on %s" % (name, x.adt), e)
        if name.startswith("simd_") and tshort in ("SimdComplexField", "SimdRealField"):
            # simba's blanket impl: simd_<m> == <m> of ComplexField / RealField
            name = name[5:]
            for t2 in ("ComplexField", "RealField"):
                for imp in self.F.impls_of(t2, x.adt):
                    b = self.F.impl_item(imp, name)
                    if b is not None:
                        return self.call_body(b, args, e)
            self.unsupported("simd forward %s on %s" % (name, x.adt), e)
        cands = []
        for imp in self.F.impls_of(tshort, x.adt):
            if trait and imp.get("trait") != trait and not imp.get("trait", "").endswith(tshort):
                continue
            b = self.F.impl_item(imp, name)
            if b is None:
                continue
            cands.append((imp, b))
        if tshort in OP_TRAIT.values() and len(a) == 2:
            # choose by the kind of the right operand: scalar -> impl<F>, crate type -> the (&, &) impl
            want_scalar = isinstance(a[1], Sc)
            sel = []
            for imp, b in cands:
                targs = imp.get("trait_args", [])
                rhs_t = self.F.ty(targs[1]) if len(targs) > 1 else None
                self_t = self.F.ty(imp["self"])
                if want_scalar:
                    if rhs_t is not None and rhs_t["k"] == "param":
                        sel.append((imp, b))
                else:
                    if rhs_t is not None and rhs_t["k"] == "ref" and self_t["k"] == "ref":
                        sel.append((imp, b))
            cands = sel
        elif tshort == "Neg":
            cands = [(i, b) for i, b in cands if self.F.ty(i["self"])["k"] == "ref"]
        if len(cands) == 1:
            return self.call_body(cands[0][1], args, e)
        if not cands:
            # provided method of the trait (no impl overrides the item: DualNum defaults, the blanket-implemented BesselDual)
            tr = self.F.traits.get(trait) or (self.F.traits.get("DualNum") if trait.endswith("DualNum") else None)
            if tr:
                for it in tr["items"]:
                    if it["name"] == name and it["did"] in self.F.bodies:
                        return self.call_body(self.F.bodies[it["did"]], args, e)
        self.unsupported("dynamic dispatch of %s::%s on %s (%d candidates)" % (trait, name, x.adt, len(cands)), e)

    # ------------------------------------------------------------------ binding
    def bind(self, p, v, env):
        """match value v against pattern p, extending env; returns False when the pattern refutes"""
        k = p["k"]
        if k == "wild":
            return True
        if k == "bind":
            sub = p.get("sub")
            if sub is not None:
                if not self.bind(sub, v, env):
                    return False
            val = v
            if p.get("mut") and not isinstance(v, Ref):
                val = deep(v)
            env[p["id"]] = [val]
            return True
        if k == "slice" and "mid" not in p:
            u = unref(v)
            pats = list(p.get("before", [])) + list(p.get("after", []))
            if not isinstance(u, Tup) or len(u.vs) != len(pats):
                raise Unsupported("slice pattern on %r" % (u,))
            return all(self.bind(q, x, env) for q, x in zip(pats, u.vs))
        if k == "tuple":
            u = unref(v)
            if isinstance(u, Unit) and not p["pats"]:
                return True      # the pattern `()`
            if not isinstance(u, Tup) or len(u.vs) != len(p["pats"]) or "dotdot" in p:
                raise Unsupported("tuple pattern on %r" % (u,))
            return all(self.bind(q, x, env) for q, x in zip(p["pats"], u.vs))
        if k == "ref":
            return self.bind(p["pat"], v, env)
        if k == "tuplestruct":
            name = p["path"].get("text", "").split("::")[-1]
            if name in ("Some", "Ok", "Err"):
                byref = isinstance(v, Ref)
                u = unref(v)
                if name == "Some" and isinstance(u, OrdV):
                    # partial_cmp of two (non-NaN) scalars is Some(ordering)
                    return self.bind(p["pats"][0], OrdInner(u.a, u.b), env)
                if name == "Some":
                    if not isinstance(u, Opt):
                        raise Unsupported("Some pattern on %r" % (u,))
                    if not u.some:
                        return False
                    inner = Ref(u, "v") if byref else u.v
                    return self.bind(p["pats"][0], inner, env)
                if not isinstance(u, Res):
                    raise Unsupported("%s pattern on %r" % (name, u))
                if u.ok != (name == "Ok"):
                    return False
                return self.bind(p["pats"][0], u.v, env)
            u = unref(v)
            if isinstance(u, Rec):
                ok = True
                for i, q in enumerate(p["pats"]):
                    ok = ok and self.bind(q, u.f[str(i)], env)
                return ok
            raise Unsupported("tuple-struct pattern %s" % name)
        if k == "struct":
            u = unref(v)
            if not isinstance(u, Rec):
                raise Unsupported("struct pattern on %r" % (u,))
            return all(self.bind(f["pat"], u.f[f["name"]], env) for f in p["fields"])
        if k == "lit":
            u = unref(v)
            if "path" in p:
                name = p["path"].get("text", "").split("::")[-1]
                if name == "None" and isinstance(u, OrdV):
                    return False
                if name == "None":
                    if not isinstance(u, Opt):
                        raise Unsupported("None pattern on %r" % (u,))
                    return not u.some
                if name in ("Less", "Equal", "Greater") and isinstance(u, OrdInner):
                    return self.compare({"Less": "<", "Equal": "==", "Greater": ">"}[name], u.a, u.b).b
                raise Unsupported("path pattern %s" % name)
            lit = p["lit"]
            if isinstance(u, Sc) and lit["k"] in ("int", "float"):
                c = Fr(lit["v"])
                if p.get("neg"):
                    c = -c
                return self.compare("==", u, self.sc(c)).b
            if isinstance(u, DimV) and lit["k"] == "int":
                if u.name == "1":
                    return lit["v"] == "1"
                return self.decide(("dim", u.name, lit["v"]), "dim %s == %s" % (u.name, lit["v"]))
            if isinstance(u, BoolV) and lit["k"] == "bool":
                return u.b == lit["v"]
            raise Unsupported("literal pattern on %r" % (u,))
        if k == "or":
            for q in p["pats"]:
                e2 = dict(env)
                if self.bind(q, v, e2):
                    env.update(e2)
                    return True
            return False
        raise Unsupported("pattern kind %s" % k)

    # ------------------------------------------------------------------ places
    def place(self, e, env):
        """evaluate a place expression to (container, key)"""
        k = e["k"]
        if k == "path":
            r = e["res"]
            if r["r"] == "local":
                cell = env.get(r["id"])
                if cell is None:
                    self.unsupported("unbound local %s" % r["name"], e)
                if isinstance(cell[0], Ref):
                    # a binding holding a reference: the place designated by `*x` is the referent; the
                    # binding itself is cell
                    return (cell, 0)
                return (cell, 0)
            self.unsupported("place path", e)
        if k == "field":
            base = self.ev(e["a"], env)
            base = unref(base)
            if isinstance(base, Rec):
                return (base, e["name"])
            if isinstance(base, Tup):
                return (base, int(e["name"]))
            if isinstance(base, Mat) and e["name"] == "data":
                return ([base], 0)
            self.unsupported("field place on %r" % (base,), e)
        if k == "un" and e["op"] == "deref":
            v = self.ev(e["a"], env)
            if isinstance(v, Ref):
                return (v.c, v.k)
            # deref of a shared reference / box: the place of the operand
            return self.place(e["a"], env)
        if k == "block" and not e["b"]["stmts"] and e["b"].get("tail"):
            return self.place(e["b"]["tail"], env)
        if k == "index":
            base = unref(self.ev(e["a"], env))
            idx = unref(self.ev(e["b"], env))
            return (IndexPlace(base, idx), 0)
        if k == "mcall":
            v = self.ev(e, env)
            if isinstance(v, Ref):
                return (v.c, v.k)
        self.unsupported("place expression %s" % k, e)

    # ------------------------------------------------------------------ evaluation
    def ev(self, e, env):
        if e is None:
            return UNIT
        k = e["k"]
        m = getattr(self, "ev_" + k, None)
        if m is None:
            self.unsupported("expression kind %s" % k, e)
        return m(e, env)

    def ev_lit(self, e, env):
        lit = e["lit"]
        if lit["k"] in ("int", "float"):
            s = lit["v"]
            s = s.replace("_", "")
            for suf in ("f64", "f32", "i32", "usize", "u32", "i64", "u64"):
                if s.endswith(suf):
                    s = s[: -len(suf)]
            return self.sc(Fr(s))
        if lit["k"] == "bool":
            return BoolV(lit["v"])
        if lit["k"] == "str":
            return StrV(lit["v"])
        self.unsupported("literal", e)

    def ev_path(self, e, env):
        r = e["res"]
        if r["r"] == "local":
            cell = env.get(r["id"])
            if cell is None:
                self.unsupported("unbound local %s" % r["name"], e)
            return cell[0]
        if r["r"] == "def":
            c = r["c"]
            dk = r["dk"]
            if dk.startswith("Ctor"):
                name = c.get("path", "").split("::")[-1]
                if name == "None":
                    return Opt(False)
                if name == "PhantomData":
                    return PHANTOM
                if dk.startswith("Ctor(Struct, Const)") or "Const" in dk:
                    # unit struct (nalgebra U1 = Const::<1>)
                    t = self.F.ty(e["t"])
                    return self.unit_struct(t, e)
                return FnV(c)
            if dk.startswith("Const") or dk.startswith("AssocConst"):
                b = self.callee_body(c)
                if b is not None:
                    return self.call_body(b, [], e)
                name = c.get("name")
                if name == "U1" and c.get("path", "").startswith("nalgebra"):
                    return DimV("1")
                if name in ("EPSILON",):
                    # the machine epsilon of the float type of the enclosing float instance is `EPS`; the epsilon of the OTHER
                    # float type (or a concrete float's epsilon inside generic code) is a different number
                    pth = c.get("path", "")
                    ft = "f32" if "f32" in pth else ("f64" if "f64" in pth else None)
                    cur = getattr(self, "float_ctx", None)
                    if ft is None or ft == cur:
                        return Sc(self.dom.named("EPS"))
                    return Sc(self.dom.named("EPS_" + ft))
                if name in ("MIN_POSITIVE", "MAX", "MIN", "INFINITY", "NEG_INFINITY", "NAN") and c.get("path", "").startswith(("core::f32", "core::f64", "std::f32", "std::f64")):
                    return Sc(self.dom.named("F::" + name))
                if name in FLOAT_CONSTS:
                    return Sc(self.dom.named(name))
                if name in ("NDERIV", "LANES"):
                    return Sc(self.dom.named("%s(%s)" % (name, c.get("path"))))
                self.unsupported("constant %s" % c.get("path"), e)
            if dk in ("Fn", "AssocFn"):
                return FnV(c)
            if dk == "ConstParam":
                return Sc(self.dom.named(c.get("path", "N")))
            self.unsupported("path to %s" % dk, e)
        if r["r"] == "selfctor":
            return FnV({"path": "Self", "selfctor": True, "t": e["t"]})
        self.unsupported("path resolution %s" % r["r"], e)

    def unit_struct(self, t, e):
        if t["k"] == "adt" and t["n"].endswith("Const"):
            return DimV("1" if "1" in t["s"] else t["s"])
        if t["k"] == "adt" and t["n"].endswith("PhantomData"):
            return PHANTOM
        self.unsupported("unit struct %s" % t.get("s"), e)

    def ev_call(self, e, env):
        f = e["f"]
        args = [self.ev(a, env) for a in e["args"]]
        if f["k"] == "path" and f["res"]["r"] == "def":
            c = f["res"]["c"]
            dk = f["res"]["dk"]
            if dk.startswith("Ctor"):
                return self.construct(c, args, e)
            return self.call_callee(c, args, e)
        if f["k"] == "path" and f["res"]["r"] == "selfctor":
            return self.construct({"path": "Self"}, args, e)
        fv = unref(self.ev(f, env))
        return self.call_closure(fv, args, e)

    def construct(self, c, args, e):
        name = c.get("path", "").split("::")[-1]
        if name == "Some":
            return Opt(True, args[0])
        if name == "Ok":
            return Res(True, args[0])
        if name == "Err":
            return Res(False, args[0])
        adt = self.F.adt_name(e["t"])
        if adt is None:
            self.unsupported("constructor %s" % c.get("path"), e)
        return Rec(adt, {str(i): a for i, a in enumerate(args)})

    def ev_mcall(self, e, env):
        c = e.get("callee")
        recv_e = e["recv"]
        # receiver: `&mut self` methods need the place
        recv = self.ev_recv(recv_e, env, c)
        args = [recv] + [self.ev(a, env) for a in e["args"]]
        if c is None:
            self.unsupported("unresolved method %s" % e["m"], e)
        return self.call_callee(c, args, e)

    def ev_recv(self, recv_e, env, c):
        # auto-ref with &mut: adjustments list has "borrow" and adjusted type is &mut
        adj = recv_e.get("adj")
        if adj and adj[-1] == "borrow":
            at = self.F.ty(recv_e["at"])
            if at["k"] == "ref" and at.get("m"):
                try:
                    c_, k_ = self.place(recv_e, env)
                    v = place_get(c_, k_)
                    if isinstance(v, Ref):
                        return v
                    return Ref(c_, k_)
                except Unsupported:
                    pass
        return self.ev(recv_e, env)

    def ev_bin(self, e, env):
        op = e["op"]
        if op in ("&&", "||"):
            a = unref(self.ev(e["a"], env))
            if not isinstance(a, BoolV):
                self.unsupported("non-boolean operand of %s" % op, e)
            if op == "&&" and not a.b:
                return BoolV(False)
            if op == "||" and a.b:
                return BoolV(True)
            b = unref(self.ev(e["b"], env))
            if not isinstance(b, BoolV):
                self.unsupported("non-boolean operand of %s" % op, e)
            return b
        a = self.ev(e["a"], env)
        b = self.ev(e["b"], env)
        c = e.get("callee")
        if c is not None and not self.scalar_leaf(c, [a, b]):
            body = self.callee_body(c)
            if body is not None:
                return self.call_body(body, [a, b], e)
        return self.binop(op, a, b, c, e)

    def binop(self, op, a, b, c, e):
        a = unref(a)
        b = unref(b)
        d = self.dom
        if op in BINOPS:
            name = BINOPS[op]
            if isinstance(a, Sc) and isinstance(b, Sc):
                return Sc(getattr(d, name)(a.v, b.v))
            if isinstance(a, Mat):
                return self.mat_method(name, "", a, [b], e)
            if isinstance(a, Rec):
                cc = c or {"trait": "std::ops::" + OP_TRAIT[name], "name": name}
                return self.dyn_dispatch(name, cc, [a, b], [a, b], e)
            if isinstance(a, Sc) and isinstance(b, Rec):
                # a scalar standing where a dual number is expected can only be a lifted constant (one(), zero(), from(c))
                # of a generic Self: lift it to a constant of the operand's type
                lifted = self.lift_const(a, b, e)
                cc = c or {"trait": "std::ops::" + OP_TRAIT[name], "name": name}
                return self.dyn_dispatch(name, cc, [lifted, b], [lifted, b], e)
        if op in ("==", "!=", "<", "<=", ">", ">="):
            if isinstance(a, Sc) and isinstance(b, Sc):
                return self.compare(op, a, b)
            if isinstance(a, Rec) and isinstance(b, Rec):
                name = {"==": "eq", "!=": "ne", "<": "lt", "<=": "le", ">": "gt", ">=": "ge"}[op]
                return self.rec_compare(name, op, a, b, c, e)
            if isinstance(a, BoolV) and isinstance(b, BoolV) and op in ("==", "!="):
                return BoolV((a.b == b.b) == (op == "=="))
            if op in ("==", "!=") and ((isinstance(a, DimV) and isinstance(b, Sc)) or (isinstance(b, DimV) and isinstance(a, Sc))):
                # a dimension compared with an integer literal: the same decision as the literal pattern `(1, _)`
                dm, sc_ = (a, b) if isinstance(a, DimV) else (b, a)
                cv = self.dom.concrete(sc_.v) if hasattr(self.dom, "concrete") else None
                if cv is not None and cv == int(cv):
                    lit = str(int(cv))
                    r = (lit == "1") if dm.name == "1" else self.decide(("dim", dm.name, lit), "dim %s == %s" % (dm.name, lit))
                    return BoolV(r == (op == "=="))
            if op in ("==", "!="):
                r = self.struct_eq(a, b, e)
                if r is not None:
                    return BoolV(r == (op == "=="))
        self.unsupported("binary %s on %r, %r" % (op, type(a).__name__, type(b).__name__), e)

    def struct_eq(self, a, b, e):
        """structural equality of std values as the derived PartialEq impls see it"""
        if isinstance(a, Phantom) and isinstance(b, Phantom):
            return True
        if isinstance(a, Unit) and isinstance(b, Unit):
            return True
        if isinstance(a, Opt) and isinstance(b, Opt):
            if a.some != b.some:
                return False
            if not a.some:
                return True
            return self.struct_eq(unref(a.v), unref(b.v), e)
        if isinstance(a, Mat) and isinstance(b, Mat):
            return self.compare("==", Sc(a.p), Sc(b.p)).b
        if isinstance(a, Sc) and isinstance(b, Sc):
            return self.compare("==", a, b).b
        if isinstance(a, Rec) and isinstance(b, Rec):
            return self.rec_compare("eq", "==", a, b, None, e).b
        if isinstance(a, Tup) and isinstance(b, Tup) and len(a.vs) == len(b.vs):
            return all(self.struct_eq(unref(x), unref(y), e) for x, y in zip(a.vs, b.vs))
        return None

    def lift_const(self, a, like, e):
        f = {}
        for k, v in like.f.items():
            u = unref(v)
            if k == "re":
                f[k] = a
            elif isinstance(u, Sc):
                f[k] = self.sc(0)
            elif isinstance(u, Rec) and u.adt == "Derivative":
                f[k] = Rec("Derivative", {"0": Opt(False), "1": PHANTOM})
            elif isinstance(u, Phantom):
                f[k] = PHANTOM
            else:
                self.unsupported("lifting a constant to %s" % like.adt, e)
        return Rec(like.adt, f)

    def rec_compare(self, name, op, a, b, c, e):
        """comparison of crate types: through the local PartialEq / PartialOrd impl"""
        if name in ("eq", "ne"):
            for imp in self.F.impls_of("PartialEq", a.adt):
                body = self.F.impl_item(imp, "eq")
                if body is not None:
                    r = unref(self.call_body(body, [a, b], e))
                    return BoolV(r.b == (name == "eq"))
            self.unsupported("derived PartialEq on %s" % a.adt, e)
        for imp in self.F.impls_of("PartialOrd", a.adt):
            body = self.F.impl_item(imp, "partial_cmp")
            if body is not None:
                r = unref(self.call_body(body, [a, b], e))
                # the impl must have forwarded to partial_cmp on scalars: r = Sc(named partial_cmp(x,y))
                if isinstance(r, OrdV):
                    return self.compare(op, r.a, r.b)
                self.unsupported("partial_cmp result %r" % (r,), e)
        self.unsupported("PartialOrd on %s" % a.adt, e)

    def ev_un(self, e, env):
        op = e["op"]
        if op == "deref":
            v = self.ev(e["a"], env)
            if isinstance(v, Ref):
                return v.get()
            return v
        a = self.ev(e["a"], env)
        c = e.get("callee")
        if c is not None and not self.scalar_leaf(c, [a]):
            body = self.callee_body(c)
            if body is not None:
                return self.call_body(body, [a], e)
        a = unref(a)
        if op == "-":
            if isinstance(a, Sc):
                return Sc(self.dom.neg(a.v))
            if isinstance(a, Mat):
                return Mat(self.dom.neg(a.p), a.shape)
            if isinstance(a, Rec):
                cc = c or {"trait": "std::ops::Neg", "name": "neg"}
                return self.dyn_dispatch("neg", cc, [a], [a], e)
        if op == "!":
            if isinstance(a, BoolV):
                return BoolV(not a.b)
        self.unsupported("unary %s on %r" % (op, a), e)

    def ev_assignop(self, e, env):
        op = e["op"]
        if not op.endswith("="):
            op = op + "="
        name = ASSIGNOPS[op]
        c = e.get("callee")
        pc, pk = self.place(e["a"], env)
        cur = place_get(pc, pk)
        rhs = self.ev(e["b"], env)
        if c is not None and not self.scalar_leaf(c, [cur.get() if isinstance(cur, Ref) else cur, rhs]):
            body = self.callee_body(c)
            if body is not None:
                ref = cur if isinstance(cur, Ref) else Ref(pc, pk)
                self.call_body(body, [ref, rhs], e)
                return UNIT
        tgt = cur
        if isinstance(cur, Ref):
            pc, pk = cur.c, cur.k
            tgt = cur.get()
        new = self.binop({"add": "+", "sub": "-", "mul": "*", "div": "/", "rem": "%"}[name], tgt, rhs, None, e)
        place_set(pc, pk, new)
        return UNIT

    def ev_assign(self, e, env):
        v = self.ev(e["b"], env)
        lhs = e["a"]
        pc, pk = self.place(lhs, env)
        if lhs["k"] == "path":
            # assignment to a local variable replaces the binding
            place_set(pc, pk, v)
            return UNIT
        place_set(pc, pk, v)
        return UNIT

    def ev_field(self, e, env):
        base = unref(self.ev(e["a"], env))
        if isinstance(base, Rec):
            if e["name"] not in base.f:
                self.unsupported("no field %s on %s" % (e["name"], base.adt), e)
            return base.f[e["name"]]
        if isinstance(base, Tup):
            return base.vs[int(e["name"])]
        if isinstance(base, Mat) and e["name"] == "data":
            return base
        if isinstance(base, Mat) and e["name"] == "0" and base.shape == ("1", "1"):
            # ArrayStorage of a 1x1 matrix: [[element]]
            return Tup([Tup([Sc(base.p)])])
        self.unsupported("field %s of %r" % (e["name"], base), e)

    def ev_index(self, e, env):
        base = unref(self.ev(e["a"], env))
        idx = unref(self.ev(e["b"], env))
        if isinstance(base, Mat):
            if base.shape == ("1", "1"):
                return Sc(base.p)
            return Sc(base.p)  # a generic element
        if isinstance(base, Tup) and isinstance(idx, Rec) and idx.adt in ("std::Range", "RangeFrom", "RangeTo", "std::RangeInclusive", "RangeFull"):
            # a constant sub-slice of an array / slice literal
            def cst(v, default):
                if v is None:
                    return default
                v = unref(v)
                cv = self.dom.concrete(v.v) if isinstance(v, Sc) and hasattr(self.dom, "concrete") else None
                if cv is None or cv != int(cv):
                    self.unsupported("slice bound", e)
                return int(cv)
            lo = cst(idx.f.get("start"), 0)
            hi = cst(idx.f.get("end"), len(base.vs))
            if idx.adt == "std::RangeInclusive":
                hi += 1
            if 0 <= lo <= hi <= len(base.vs):
                return Tup(list(base.vs[lo:hi]))
        if isinstance(base, Tup) and isinstance(idx, Sc):
            # a constant index into an array / slice literal
            cv = self.dom.concrete(idx.v) if hasattr(self.dom, "concrete") else None
            if cv is not None and cv == int(cv) and 0 <= int(cv) < len(base.vs):
                return base.vs[int(cv)]
        self.unsupported("index", e)

    def ev_tup(self, e, env):
        if not e["es"]:
            return UNIT
        return Tup([self.ev(x, env) for x in e["es"]])

    def ev_addr(self, e, env):
        if e["mut"]:
            inner = e["a"]
            try:
                c, k = self.place(inner, env)
                v = place_get(c, k)
                if isinstance(v, Ref):
                    return v
                return Ref(c, k)
            except Unsupported:
                return self.ev(inner, env)
        return self.ev(e["a"], env)

    def ev_cast(self, e, env):
        return self.ev(e["a"], env)

    def ev_block(self, e, env):
        return self.ev_blk(e["b"], env)

    def ev_blk(self, b, env):
        env = dict(env) if False else env  # bindings are keyed by unique hir ids: no scoping needed
        for st in b["stmts"]:
            if st["s"] == "let":
                init = st.get("init")
                if init is None:
                    self.unsupported("let without initialiser")
                v = self.ev(init, env)
                if not self.bind(st["pat"], v, env):
                    if st.get("else"):
                        self.ev_blk(st["else"], env)
                    self.unsupported("refutable let")
            elif st["s"] in ("expr", "semi"):
                self.ev(st["e"], env)
        if b.get("tail") is not None:
            return self.ev(b["tail"], env)
        return UNIT

    def cond(self, ce, env):
        if ce["k"] == "let":
            v = self.ev(ce["init"], env)
            return self.bind(ce["pat"], v, env)
        v = unref(self.ev(ce, env))
        if isinstance(v, BoolV):
            return v.b
        self.unsupported("condition value %r" % (v,), ce)

    def ev_if(self, e, env):
        if self.cond(e["c"], env):
            return self.ev(e["then"], env)
        if e.get("else") is not None:
            return self.ev(e["else"], env)
        return UNIT

    def ev_let(self, e, env):
        v = self.ev(e["init"], env)
        return BoolV(self.bind(e["pat"], v, env))

    def ev_match(self, e, env):
        src = e.get("src", "")
        if src.startswith("TryDesugar"):
            return self.ev_try(e, env)
        if src.startswith("ForLoopDesugar"):
            return self.ev_for(e, env)
        scrut = self.ev(e["scrut"], env)
        for arm in e["arms"]:
            env2 = env
            if self.bind(arm["pat"], scrut, env2):
                if arm.get("guard") is not None:
                    if not self.cond(arm["guard"], env2):
                        continue
                return self.ev(arm["body"], env2)
        self.unsupported("non-exhaustive match", e)

    def ev_for(self, e, env):
        """`for pat in range { body }`: only as an element-uniform loop (the body is evaluated once for a symbolic
        index); enabled by rules that have verified the loop template structurally (C13.3)"""
        # a loop over the rule's own finite list of symbolic items (IterV) is evaluated item by item
        try:
            itv = None
            call = e["scrut"]
            if call["k"] == "call" and call["args"]:
                a0 = call["args"][0]
                if a0["k"] == "path" and a0["res"].get("r") == "local":
                    itv = unref(self.ev(a0, env))
                    if isinstance(itv, Tup):
                        itv = IterV(list(itv.vs))     # `for c in table` over an array / slice literal
                elif a0["k"] in ("index",) or (a0["k"] == "addr" and a0["a"]["k"] in ("index", "path")):
                    itv = unref(self.ev(a0, env))
                    if isinstance(itv, Tup):
                        itv = IterV(list(itv.vs))
                elif a0["k"] in ("array", "addr", "mcall", "tup") and not any(
                        n.get("k") in ("assign", "assignop", "closure") for n in _walk_expr(a0)):
                    # a literal table (array of tuples, possibly through .iter()/.into_iter()): evaluated once, no effects
                    itv = unref(self.ev(a0, env))
                    if isinstance(itv, Tup):
                        itv = IterV(list(itv.vs))
        except Unsupported:
            itv = None
        if isinstance(itv, IterV):
            arm = e["arms"][0]
            loop = arm["body"]
            inner = loop["body"]["stmts"][0]["e"] if loop["body"]["stmts"] else loop["body"]["tail"]
            some_arm = [a for a in inner["arms"]
                        if (a["pat"]["k"] == "tuplestruct") or (a["pat"]["k"] == "struct" and a["pat"]["fields"])][0]
            pat = some_arm["pat"]["pats"][0] if some_arm["pat"]["k"] == "tuplestruct" else some_arm["pat"]["fields"][0]["pat"]
            for item in itv.items:
                if not self.bind(pat, item, env):
                    self.unsupported("refutable for pattern", e)
                self.ev(some_arm["body"], env)
            return UNIT
        if not getattr(self, "elementwise_loops", False):
            self.unsupported("for loop", e)
        try:
            arm = e["arms"][0]
            loop = arm["body"]
            while loop["k"] == "block":
                loop = loop["b"]["tail"] or loop["b"]["stmts"][-1]["e"]
            inner = loop["body"]["stmts"][0]["e"] if loop["body"]["stmts"] else loop["body"]["tail"]
            some_arm = [a for a in inner["arms"]
                        if (a["pat"]["k"] == "tuplestruct") or (a["pat"]["k"] == "struct" and a["pat"]["fields"])][0]
            pat = some_arm["pat"]["pats"][0] if some_arm["pat"]["k"] == "tuplestruct" else some_arm["pat"]["fields"][0]["pat"]
            body = some_arm["body"]
        except (KeyError, IndexError, TypeError):
            self.unsupported("for-loop desugaring shape", e)
        if pat["k"] != "bind":
            self.unsupported("for-loop pattern", e)
        env[pat["id"]] = [Sc(self.dom.named("$" + pat["name"]))]
        self.ev(body, env)
        return UNIT

    def ev_try(self, e, env):
        # match Try::branch(x) { Continue(v) => v, Break(r) => return from_residual(r) }
        call = e["scrut"]
        inner = call["args"][0] if call["k"] == "call" else None
        if inner is None:
            self.unsupported("try desugaring shape", e)
        v = unref(self.ev(inner, env))
        if isinstance(v, Opt):
            if v.some:
                return v.v
            raise ReturnEx(Opt(False))
        if isinstance(v, Res):
            if v.ok:
                return v.v
            raise ReturnEx(v)
        self.unsupported("? on %r" % (v,), e)

    def ev_closure(self, e, env):
        return Clo(e, env)

    def ev_ret(self, e, env):
        raise ReturnEx(self.ev(e.get("a"), env) if e.get("a") is not None else UNIT)

    def ev_struct(self, e, env):
        adt = self.F.adt_name(e["t"])
        names = {fl["name"] for fl in e["fields"]}
        if adt in ("Range", "RangeInclusive") and names == {"start", "end"}:
            return Rec("std::" + adt, {fl["name"]: self.ev(fl["e"], env) for fl in e["fields"]})
        if adt is None:
            self.unsupported("struct literal of non-ADT", e)
        f = {}
        if e.get("base") is not None:
            base = unref(self.ev(e["base"], env))
            f.update(deep(base).f)
        for fl in e["fields"]:
            f[fl["name"]] = self.ev(fl["e"], env)
        return Rec(adt, f)

    def ev_loop(self, e, env):
        self.unsupported("loop", e)

    def ev_other(self, e, env):
        self.unsupported("expression %s" % e.get("s"), e)

    def ev_array(self, e, env):
        return Tup([self.ev(x, env) for x in e["es"]])


class IndexPlace:
    """m[i] = v on a matrix: only the unit-vector construction of derivative_generic uses it"""

    def __init__(self, base, idx):
        self.base = base
        self.idx = idx


class OrdInner:
    """the Ordering inside Some(partial_cmp(a, b))"""

    def __init__(self, a, b):
        self.a, self.b = a, b


class OrdV:
    """result of partial_cmp on two scalars"""

    def __init__(self, a, b):
        self.a = a
        self.b = b

    def __repr__(self):
        return "partial_cmp(%r, %r)" % (self.a, self.b)


# ----------------------------------------------------------------------------- domain C (dependencies)
class Dep:
    """set of (operand part / parameter) names a scalar value depends on (data dependence)"""
    __slots__ = ("s",)

    def __init__(self, s=()):
        self.s = frozenset(s)

    def __or__(self, o):
        return Dep(self.s | o.s)

    def rename_idx(self, mp):
        return self

    def show(self):
        return "{" + ", ".join(sorted(self.s)) + "}"

    def __repr__(self):
        return "Dep" + self.show()


class DomC:
    """sound dependency domain: every operation's result depends on the union of its operands' dependencies
    (no algebraic cancellation is used, so `not a single bit` follows for deterministic float operations)"""
    name = "C"

    def __init__(self):
        self.counter = 0

    def const(self, c):
        return Dep()

    def named(self, name):
        return Dep()

    def _u(self, a, b):
        return a | b

    add = sub = mul = div = rem = _u

    def neg(self, a):
        return a

    recip = neg

    def powi(self, a, n):
        return a | n

    powf = powi

    def fn(self, name, a):
        return a

    def fn2(self, name, a, b):
        return a | b

    def key(self, a):
        # every guard evaluation is its own decision (no merging of distinct conditions)
        self.counter += 1
        return ("dep", self.counter, a.s)

    def show(self, a):
        return a.show()

    def concrete(self, a):
        return None


# ----------------------------------------------------------------------------- domain T (uninterpreted terms)
class Term:
    """hash-consed uninterpreted expression tree: two values are equal iff they were computed by the same float operations
    on the same inputs in the same order (commutativity of + and * is the only identity used; it is exact in IEEE arithmetic)"""
    __slots__ = ("t",)

    def __init__(self, t):
        self.t = t

    def rename_idx(self, mp):
        return self

    def show(self):
        def s(x):
            if isinstance(x, tuple):
                return x[0] + "(" + ",".join(s(y) for y in x[1:]) + ")" if len(x) > 1 else str(x[0])
            return str(x)
        return s(self.t)

    def __eq__(self, o):
        return isinstance(o, Term) and self.t == o.t

    def __hash__(self):
        return hash(self.t)

    def __repr__(self):
        return "Term[%s]" % self.show()


class DomT:
    name = "T"

    def const(self, c):
        return Term(("const:%s" % c,))

    def named(self, name):
        return Term(("named:%s" % name,))

    def _comm(self, op, a, b):
        x, y = sorted([a.t, b.t], key=repr)
        return Term((op, x, y))

    def add(self, a, b):
        return self._comm("add", a, b)

    def mul(self, a, b):
        return self._comm("mul", a, b)

    def sub(self, a, b):
        return Term(("sub", a.t, b.t))

    def div(self, a, b):
        return Term(("div", a.t, b.t))

    def rem(self, a, b):
        return Term(("rem", a.t, b.t))

    def neg(self, a):
        return Term(("neg", a.t))

    def recip(self, a):
        return Term(("recip", a.t))

    def powi(self, a, n):
        return Term(("powi", a.t, n.t))

    def powf(self, a, n):
        return Term(("powf", a.t, n.t))

    def fn(self, name, a):
        return Term((name, a.t))

    def fn2(self, name, a, b):
        return Term((name, a.t, b.t))

    def key(self, a):
        return ("term", a.t)

    def show(self, a):
        return a.show()

    def concrete(self, a):
        t = a.t
        if len(t) == 1 and isinstance(t[0], str) and t[0].startswith("const:"):
            return Fr(t[0][6:])
        return None
