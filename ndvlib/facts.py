"""Run the exporter against /repo's current working tree and load the facts."""
import hashlib
import json
import os
import subprocess
import sys
import time

VERIF = os.path.dirname(os.path.dirname(os.path.abspath(__file__)))
REPO = os.environ.get("NDV_REPO", "/repo")
CACHE = os.environ.get("NDV_CACHE", os.path.join(VERIF, ".cache"))
EXPORTER = os.path.join(VERIF, "exporter", "target", "release", "ndv-export")

CONFIGS = {
    "default": [],
    "linalg": ["--features", "linalg"],
    "serde": ["--features", "serde"],
    "python": ["--features", "python"],
}


def _sysroot():
    return subprocess.check_output(["rustc", "+nightly", "--print", "sysroot"], text=True).strip()


def tree_hash(config):
    h = hashlib.sha256()
    h.update(config.encode())
    files = []
    for root, dirs, fs in os.walk(os.path.join(REPO, "src")):
        dirs.sort()
        for f in sorted(fs):
            files.append(os.path.join(root, f))
    for f in ("Cargo.toml", "Cargo.lock", "build.rs"):
        p = os.path.join(REPO, f)
        if os.path.exists(p):
            files.append(p)
    files.append(EXPORTER)
    for p in files:
        h.update(p.encode())
        with open(p, "rb") as fh:
            h.update(hashlib.sha256(fh.read()).digest())
    return h.hexdigest()[:24]


def build_exporter():
    env = dict(os.environ, CARGO_NET_OFFLINE="true")
    r = subprocess.run(
        ["cargo", "+nightly", "build", "--release", "--offline"],
        cwd=os.path.join(VERIF, "exporter"), env=env, capture_output=True, text=True)
    if r.returncode != 0:
        sys.stderr.write(r.stdout + r.stderr)
        raise SystemExit("CHECKER-BROKEN: exporter build failed")


def export(config, force=False):
    """Export facts for one feature configuration; returns the path of the fact file.
    Facts are reused only under a content hash over /repo/src/**, Cargo.toml, Cargo.lock, the feature
    set and the exporter binary."""
    if not os.path.exists(EXPORTER):
        build_exporter()
    hsh = tree_hash(config)
    fdir = os.path.join(CACHE, "facts")
    os.makedirs(fdir, exist_ok=True)
    out = os.path.join(fdir, "%s-%s.json" % (config, hsh))
    if os.path.exists(out) and not force:
        return out
    tdir = os.path.join(CACHE, "target", config)
    os.makedirs(tdir, exist_ok=True)
    # cargo's freshness cache would skip the wrapper: remove the member's fingerprints
    fp = os.path.join(tdir, "debug", ".fingerprint")
    if os.path.isdir(fp):
        for d in os.listdir(fp):
            if d.startswith("num-dual-"):
                subprocess.run(["rm", "-rf", os.path.join(fp, d)])
    nonce = "%s-%d-%f" % (hsh, os.getpid(), time.time())
    stage = os.path.join(fdir, "stage-%d" % os.getpid())
    os.makedirs(stage, exist_ok=True)
    env = dict(os.environ)
    env.update({
        "LD_LIBRARY_PATH": _sysroot() + "/lib",
        "RUSTFLAGS": "-Awarnings",
        "RUSTC_WORKSPACE_WRAPPER": EXPORTER,
        "NDV_FACTS_DIR": stage,
        "NDV_TAG": config,
        "NDV_NONCE": nonce,
        "CARGO_TARGET_DIR": tdir,
        "CARGO_NET_OFFLINE": "true",
    })
    cmd = ["cargo", "+nightly", "check", "--offline", "--lib"] + CONFIGS[config]
    r = subprocess.run(cmd, cwd=REPO, env=env, capture_output=True, text=True)
    staged = os.path.join(stage, config + ".json")
    if r.returncode != 0 or not os.path.exists(staged):
        sys.stderr.write(r.stdout[-4000:] + r.stderr[-8000:])
        raise BuildFailed("cargo check failed for configuration %s" % config)
    with open(staged) as fh:
        head = fh.read(4096)
    if nonce not in head:
        raise BuildFailed("stale fact file for configuration %s" % config)
    os.replace(staged, out)
    try:
        os.rmdir(stage)
    except OSError:
        pass
    # prune old fact files of this configuration
    for f in os.listdir(fdir):
        if f.startswith(config + "-") and f != os.path.basename(out):
            try:
                os.remove(os.path.join(fdir, f))
            except OSError:
                pass
    return out


class BuildFailed(Exception):
    pass


class Facts:
    def __init__(self, path, config):
        with open(path) as fh:
            d = json.load(fh)
        self.config = config
        self.path = path
        self.raw = d
        self.types = d["types"]
        self.locs = d["locs"]
        self.bodies = {b["did"]: b for b in d["bodies"]}
        self.adts = {a["name"]: a for a in d["adts"]}
        self.impls = {i["did"]: i for i in d["impls"]}
        self.traits = {t["path"]: t for t in d["traits"]}
        self.aliases = d["aliases"]
        self.fmt = d["fmt"]
        self.n_body_owners = d["n_body_owners"]
        for b in d["bodies"]:
            imp = self.impls.get(b.get("in_impl"))
            b["_impl"] = imp

    # ---- type helpers
    def ty(self, i):
        return self.types[i]

    def ty_s(self, i):
        return self.types[i].get("s", "?")

    def peel(self, i):
        """strip references"""
        t = self.types[i]
        while t["k"] == "ref":
            t = self.types[t["t"]]
        return t

    def adt_name(self, i):
        t = self.peel(i)
        if t["k"] == "adt":
            return t["n"].split("::")[-1]
        return None

    def loc(self, i):
        l = self.locs[i]
        s = rel(l["s"])
        if l.get("cs"):
            return "%s (expanded at %s)" % (s, rel(l["cs"]))
        return s

    def loc_file_line(self, i):
        l = self.locs[i]
        return rel(l["s"])

    # ---- lookups
    def impls_of(self, trait_suffix, self_adt=None):
        out = []
        for i in self.impls.values():
            tr = i.get("trait")
            if tr is None or not (tr == trait_suffix or tr.endswith("::" + trait_suffix)):
                continue
            if self_adt is not None and self.adt_name(i["self"]) != self_adt:
                continue
            out.append(i)
        return out

    def inherent_impls(self, self_adt):
        return [i for i in self.impls.values() if i.get("trait") is None and self.adt_name(i["self"]) == self_adt]

    def impl_item(self, imp, name):
        for it in imp["items"]:
            if it["name"] == name:
                return self.bodies.get(it["did"])
        return None

    def find_method(self, self_adt, name, trait=None):
        """all bodies named `name` in impls (optionally of `trait`) for ADT `self_adt`"""
        out = []
        for b in self.bodies.values():
            if b.get("name") != name:
                continue
            imp = b.get("_impl")
            if not imp or self.adt_name(imp["self"]) != self_adt:
                continue
            tr = imp.get("trait")
            if trait is None:
                if tr is not None:
                    continue
            elif trait == "*":
                pass
            elif tr is None or not (tr == trait or tr.endswith("::" + trait)):
                continue
            out.append(b)
        return out


def binding_layer(path):
    """bodies of the pyo3 binding layer (module `python`, including macro-generated glue) — not part of the numeric core"""
    return path.startswith("python::") or "<python::" in path or " python::" in path


def rel(s):
    if s.startswith(REPO + "/"):
        return s[len(REPO) + 1:]
    return s


_loaded = {}
OVERRIDE = {}   # thorough tier: analyse the same rules on another feature configuration ("default" -> "python", ...)


def load(config):
    config = OVERRIDE.get(config, config)
    if config not in _loaded:
        p = export(config)
        _loaded[config] = Facts(p, config)
    return _loaded[config]
