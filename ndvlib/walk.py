"""Generic traversal of exported HIR trees."""


def children(e):
    """yield child expression nodes of an expression node"""
    k = e.get("k")
    for key in ("a", "b", "c", "f", "recv", "then", "else", "scrut", "init", "base", "body"):
        v = e.get(key)
        if isinstance(v, dict) and "k" in v:
            yield v
    if k == "block":
        yield from block_children(e["b"])
    if k == "loop":
        yield from block_children(e["body"])
    for key in ("args", "es"):
        for v in e.get(key, []) or []:
            if isinstance(v, dict) and "k" in v:
                yield v
    if k == "match":
        for arm in e["arms"]:
            if arm.get("guard"):
                yield arm["guard"]
            yield arm["body"]
    if k == "struct":
        for f in e["fields"]:
            yield f["e"]


def block_children(b):
    for st in b["stmts"]:
        if st["s"] == "let":
            if st.get("init"):
                yield st["init"]
            if st.get("else"):
                yield from block_children(st["else"])
        elif st["s"] in ("expr", "semi"):
            yield st["e"]
    if b.get("tail"):
        yield b["tail"]


def walk(e):
    """pre-order traversal of all expression nodes (closure bodies included)"""
    stack = [e]
    while stack:
        n = stack.pop()
        yield n
        if n.get("k") == "loop":
            pass
        ch = list(children(n))
        stack.extend(reversed(ch))


def walk_body(body):
    yield from walk(body["body"])


def pats(e):
    """all patterns occurring in an expression tree"""
    for n in walk(e):
        k = n.get("k")
        if k == "match":
            for arm in n["arms"]:
                yield from pat_walk(arm["pat"])
        elif k == "let":
            yield from pat_walk(n["pat"])
        elif k == "closure":
            for p in n["params"]:
                yield from pat_walk(p)
        elif k in ("block", "loop"):
            b = n["b"] if k == "block" else n["body"]
            for st in b["stmts"]:
                if st["s"] == "let":
                    yield from pat_walk(st["pat"])


def pat_walk(p):
    yield p
    for key in ("sub", "pat", "mid"):
        v = p.get(key)
        if isinstance(v, dict):
            yield from pat_walk(v)
    for key in ("pats", "before", "after"):
        for v in p.get(key, []) or []:
            yield from pat_walk(v)
    for f in p.get("fields", []) or []:
        yield from pat_walk(f["pat"])


def callee_of(e):
    """resolved callee description of a call-like node (or None)"""
    k = e.get("k")
    if k in ("mcall", "bin", "un", "assignop", "index"):
        return e.get("callee")
    if k == "call":
        f = e["f"]
        if f.get("k") == "path" and f["res"].get("r") == "def":
            return f["res"]["c"]
    return None


def callee_name(c):
    if not c:
        return None
    return c.get("name")


def callee_target(c):
    """path of the function actually called (impl instance when resolved)"""
    if not c:
        return None
    inst = c.get("inst")
    return (inst or c).get("path")
