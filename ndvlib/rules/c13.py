"""C13 — subset/superset conversions are lossless, coherent and memory-safe."""
import itertools

from .. import facts
from ..report import Check
from .. import walk
from ..hirpp import expr_s
from .common import *

FIELD4 = ["Dual", "DualVec", "Dual2", "Dual2Vec"]


def up(p):
    return apply_fn("up", p)


def down(p):
    return apply_fn("down", p)


def run(tier):
    chk = Check("C13", tier, "other",
                "part-wise: to_superset / from_superset(_unchecked) / is_in_subset touch every part exactly once with the matching "
                "element conversion (tagged leaf functions), presence is preserved; coherence between siblings: for every presence case "
                "and every assignment of per-part membership, from_superset(e).is_some() == is_in_subset(e); float lifting yields a "
                "constant and extraction the real part; the two unsafe element-wise loop nests match the bounded, fully-initialising "
                "template (ranges 0..nrows/ncols of the source, indices in their own slots, one unconditional write per element, "
                "assume_init after the nest); every other unsafe site is enumerated",
                assumptions=["element conversions of the inner type are coherent (induction hypothesis)",
                             "a `?` inside the initialising nest leaks already-initialised elements only for element types with a destructor; "
                             "float conversions are Copy (recorded, not a violation)"],
                trusted_base=["rustc type checker and name resolution", "ndv-export", "ndvlib/interp.py"])
    F = facts.load("default")
    templates_ok = unsafe_sites(chk, F)
    container_conversions(chk, F, templates_ok)
    for ty in FIELD4:
        type_conversions(chk, F, ty, templates_ok)
        float_lifting(chk, F, ty)
    chk.floor("unsafe loop nests matched", chk.analysed.get("unsafe loop nests matched", 0), 2)
    chk.floor("SubsetOf items", chk.analysed.get("SubsetOf items", 0), 5 * 4)
    return chk.finish()


def mk_interp(F, ctx=None):
    it = Interp(F, DOMK, ctx=ctx, extern=NALGEBRA)
    it.tag_conversions = True
    it.elementwise_loops = True
    return it


# ------------------------------------------------------------------------------------------- values
def subset_impl(chk, F, ty):
    imps = F.impls_of("SubsetOf", ty)
    if len(imps) != 1:
        chk.undecide("conv|%s" % ty, "missing anchor: impl SubsetOf for %s" % ty)
        return None
    return imps[0]


def membership_oracle(assign):
    """assign: dict poly-key -> bool for is_in_subset decisions"""
    def oracle(key, descr, ctx):
        if key[0] == "subset":
            return assign.get(key[1])
        return None
    return oracle


def part_polys(ty, opname, presence):
    sp = Spec(ty)
    op = sp.operand(opname, presence)
    out = {}
    for f, _ in sp.parts():
        x = op.f[f]
        if isinstance(x, Sc):
            out[f] = x.v
        else:
            o = x.f["0"]
            out[f] = o.v.p if o.some else None
    return sp, out


def type_conversions(chk, F, ty, templates_ok):
    imp = subset_impl(chk, F, ty)
    if imp is None:
        return
    pats = presence_patterns(ty)
    for pa in pats:
        sp, parts = part_polys(ty, "e", pa)
        ptag = "" if pa is None else "|presence=" + pres_tag(pa)
        present = [f for f, p in parts.items() if p is not None]
        # ---- to_superset / from_superset_unchecked: part-wise with the matching conversion, presence preserved
        for meth, conv, cname in (("to_superset", up, "from_subset"), ("from_superset_unchecked", down, "to_subset_unchecked")):
            body = F.impl_item(imp, meth)
            key = "conv|%s|%s%s" % (ty, meth, ptag)
            if body is None:
                chk.undecide(key, "missing anchor")
                continue
            chk.count("SubsetOf items")
            try:
                r = unref(mk_interp(F).call_body(body, [sp.operand("e", pa)]))
                partwise(chk, key, "%s converts every part once with %s and preserves absence" % (meth, cname), F, body, ty, r, parts, conv)
            except Unsupported as ex:
                chk.undecide(key, "unsupported: %s" % ex, body_loc(F, body))
        # ---- from_superset vs is_in_subset under every membership assignment
        b_from = F.impl_item(imp, "from_superset")
        b_in = F.impl_item(imp, "is_in_subset")
        if b_from is None or b_in is None:
            chk.undecide("conv|%s|from_superset%s" % (ty, ptag), "missing anchor")
            continue
        chk.count("SubsetOf items", 2)
        keys = {f: parts[f].key() for f in present}
        for p in parts.values():
            if p is not None:
                DOMK.key(p)
        for bits in itertools.product([True, False], repeat=len(present)):
            assign = {keys[f]: b for f, b in zip(present, bits)}
            atag = "".join("T" if b else "F" for b in bits)
            key = "conv|%s|coherence%s|member=%s" % (ty, ptag, atag)
            try:
                pin = run_paths_conv(F, b_in, lambda: [sp.operand("e", pa)], membership_oracle(assign))
                pfr = run_paths_conv(F, b_from, lambda: [sp.operand("e", pa)], membership_oracle(assign))
            except Unsupported as ex:
                chk.undecide(key, "unsupported: %s" % ex, body_loc(F, b_from))
                continue
            if len(pin) != 1 or len(pfr) != 1:
                chk.ob(key, False, "membership and conversion are decided by the element membership tests only", body_loc(F, b_from),
                       found="%d / %d paths" % (len(pin), len(pfr)))
                continue
            vin = unref(pin[0][1])
            vfr = unref(pfr[0][1])
            want = all(bits)
            ok_in = isinstance(vin, BoolV) and vin.b == want
            chk.ob(key + "|is_in_subset", ok_in, "is_in_subset holds exactly when every present part's elements are in the subset",
                   body_loc(F, b_in), found=repr(vin), required=str(want), nontrivial=False)
            ok = isinstance(vfr, Opt) and isinstance(vin, BoolV) and vfr.some == vin.b
            chk.ob(key, ok, "a checked narrowing succeeds exactly when the membership predicate holds (also for absent parts)",
                   "%s / %s" % (body_loc(F, b_from), body_loc(F, b_in)),
                   found="from_superset -> %s, is_in_subset -> %s" % ("Some" if isinstance(vfr, Opt) and vfr.some else repr(vfr)[:40], repr(vin)),
                   required="is_some() == is_in_subset()")
            if isinstance(vfr, Opt) and vfr.some:
                partwise(chk, key + "|value", "from_superset returns the per-part converted value", F, b_from, ty, unref(vfr.v), parts, down)


def run_paths_conv(F, body, args_fn, oracle):
    out = []

    def thunk(ctx):
        it = mk_interp(F, ctx)
        return it.call_body(body, args_fn())
    for ctx, val in explore(thunk, oracle):
        out.append((ctx, val))
    return out


def partwise(chk, key, rule, F, body, ty, r, parts, conv):
    if not isinstance(r, Rec) or r.adt != ty:
        chk.ob(key, False, rule, body_loc(F, body), found=repr(r)[:200])
        return
    for f, p in parts.items():
        x = unref(r.f[f])
        if isinstance(x, Sc):
            got = x.v
            present = True
        else:
            o = unref(x.f["0"])
            present = o.some
            got = unref(o.v).p if o.some else None
        if p is None:
            chk.ob("%s|part=%s" % (key, f), not present, rule, body_loc(F, body), found="present" if present else "absent", required="absent",
                   nontrivial=False)
        else:
            want = conv(p)
            ok = present and got is not None and equal(got, want)
            chk.ob("%s|part=%s" % (key, f), ok, rule, body_loc(F, body), found=got.show() if got is not None else "absent", required=want.show())


def container_conversions(chk, F, templates_ok):
    from .container import deriv, var_of
    imps = F.impls_of("SubsetOf", "Derivative")
    if len(imps) != 1:
        chk.undecide("conv|Derivative", "missing anchor: impl SubsetOf for Derivative")
        return
    imp = imps[0]
    s = var_of("s")
    DOMK.key(s)
    for ps in (True, False):
        ptag = "S" if ps else "N"
        for meth, conv in (("to_superset", up), ("from_superset_unchecked", down)):
            body = F.impl_item(imp, meth)
            key = "conv|Derivative|%s|presence=%s" % (meth, ptag)
            if body is None:
                chk.undecide(key, "missing anchor")
                continue
            chk.count("SubsetOf items")
            try:
                # every path (a conversion that branches on the VALUES of the elements -- say, drops a present part whose entries
                # are all zero -- must still satisfy the obligation on each branch)
                paths = run_paths_conv(F, body, lambda: [deriv("s", ps)], None)
                for ctx, r in paths:
                    r = unref(r)
                    o = unref(r.f["0"])
                    ok = (o.some and equal(unref(o.v).p, conv(s))) if ps else (not o.some)
                    chk.ob(key if len(paths) == 1 else key + "|path=" + path_descr(ctx), ok, "%s maps every element and keeps absence" % meth,
                           body_loc(F, body), found=repr(o)[:120], required=("Some(%s)" % conv(s).show()) if ps else "None")
            except Unsupported as ex:
                chk.undecide(key, "unsupported: %s" % ex, body_loc(F, body))
        b_from, b_in = F.impl_item(imp, "from_superset"), F.impl_item(imp, "is_in_subset")
        if b_from is None or b_in is None:
            chk.undecide("conv|Derivative|coherence", "missing anchor")
            continue
        chk.count("SubsetOf items", 2)
        for member in ((True, False) if ps else (None,)):
            key = "conv|Derivative|coherence|presence=%s|member=%s" % (ptag, member)
            assign = {s.key(): member} if member is not None else {}
            try:
                pin = run_paths_conv(F, b_in, lambda: [deriv("s", ps)], membership_oracle(assign))
                pfr = run_paths_conv(F, b_from, lambda: [deriv("s", ps)], membership_oracle(assign))
            except Unsupported as ex:
                chk.undecide(key, "unsupported: %s" % ex, body_loc(F, b_from))
                continue
            vin, vfr = unref(pin[0][1]), unref(pfr[0][1])
            ok = len(pin) == 1 and len(pfr) == 1 and isinstance(vfr, Opt) and isinstance(vin, BoolV) and vfr.some == vin.b
            chk.ob(key, ok, "a checked narrowing of the container succeeds exactly when the membership predicate holds (also when absent)",
                   "%s / %s" % (body_loc(F, b_from), body_loc(F, b_in)),
                   found="from_superset -> %s, is_in_subset -> %s" % (repr(vfr)[:60], repr(vin)), required="is_some() == is_in_subset()")


        # dimension 0: a PRESENT derivative without elements is in the subset (the checked narrowing of an empty matrix cannot fail:
        # the verified element-wise template performs no conversion at all)
        if ps:
            for member in (True, False):
                key = "conv|Derivative|coherence|empty|member=%s" % member
                try:
                    pin = run_paths_conv(F, b_in, lambda: [deriv("s", True, ("0", "1"))], membership_oracle({s.key(): member}))
                    vals = [unref(v) for _, v in pin]
                    ok = all(isinstance(v, BoolV) and v.b for v in vals)
                    chk.ob(key, ok, "a present derivative of dimension 0 satisfies the membership predicate (its checked narrowing succeeds)",
                           body_loc(F, b_in), found=repr(vals)[:80], required="true")
                except Unsupported as ex:
                    chk.undecide(key, "unsupported: %s" % ex, body_loc(F, b_in))


def float_lifting(chk, F, ty):
    sp = Spec(ty)
    n = 0
    for imp in F.impls_of("SupersetOf", ty):
        targs = imp.get("trait_args", [])
        fl = F.ty(targs[1]).get("n") if len(targs) > 1 and isinstance(targs[1], int) else None
        if fl not in ("f32", "f64"):
            continue
        n += 1
        for meth in ("from_subset", "to_subset_unchecked", "is_in_subset"):
            body = F.impl_item(imp, meth)
            key = "conv|%s|SupersetOf<%s>::%s" % (ty, fl, meth)
            if body is None:
                chk.undecide(key, "missing anchor")
                continue
            chk.count("SupersetOf<float> items")
            try:
                if meth == "from_subset":
                    c = Poly.var("c")
                    r = mk_interp(F).call_body(body, [Sc(c)])
                    compare_parts(chk, key, "lifting a float yields a constant (derivative parts zero/absent)", body_loc(F, body), sp, r,
                                  sp.spec_of_real(up(c)))
                elif meth == "to_subset_unchecked":
                    r = unref(mk_interp(F).call_body(body, [sp.operand("e")]))
                    ok = isinstance(r, Sc) and equal(r.v, down(Poly.var("e.re")))
                    chk.ob(key, ok, "extracting a float yields the (converted) real part", body_loc(F, body), found=repr(r)[:100],
                           required="down(e.re)")
                else:
                    paths = run_paths_conv(F, body, lambda: [sp.operand("e")], None)
                    xk = Poly.var("e.re").key()
                    ok = len(paths) == 2 and all(len(c.trace) == 1 and c.trace[0][0] == ("subset", xk) and unref(v).b == c.trace[0][2]
                                                 for c, v in paths)
                    chk.ob(key, ok, "membership of a dual number in the floats is membership of its real part", body_loc(F, body),
                           found=[path_descr(c) for c, _ in paths], nontrivial=False)
            except Unsupported as ex:
                chk.undecide(key, "unsupported: %s" % ex, body_loc(F, body))
    chk.ob("conv|%s|SupersetOf<float> impls" % ty, n == 2, "lifting from f32 and from f64 is implemented", "", found=n, required=2, nontrivial=False)


# ------------------------------------------------------------------------------------------- unsafe template
def local_id(e):
    while e is not None and e["k"] in ("addr",) or (e is not None and e["k"] == "un" and e["op"] == "deref"):
        e = e["a"]
    if e is not None and e["k"] == "path" and e["res"]["r"] == "local":
        return e["res"]["id"]
    return None


def is_for(e):
    return e.get("k") == "match" and e.get("src", "").startswith("ForLoopDesugar")


def for_parts(e):
    """(loop variable id, range end expr, range start expr, body expr) of a desugared for loop over a..b"""
    it = e["scrut"]["args"][0]
    if it["k"] != "struct" or {f["name"] for f in it["fields"]} != {"start", "end"}:
        return None
    start = [f["e"] for f in it["fields"] if f["name"] == "start"][0]
    end = [f["e"] for f in it["fields"] if f["name"] == "end"][0]
    loop = e["arms"][0]["body"]
    inner = loop["body"]["stmts"][0]["e"] if loop["body"]["stmts"] else loop["body"]["tail"]
    some = [a for a in inner["arms"] if a["pat"].get("fields") or a["pat"].get("pats")][0]
    pat = some["pat"]["fields"][0]["pat"] if some["pat"]["k"] == "struct" else some["pat"]["pats"][0]
    if pat["k"] != "bind":
        return None
    return pat["id"], end, start, some["body"]


def single_stmt(e):
    """strip blocks holding exactly one statement / tail"""
    while e["k"] == "block":
        b = e["b"]
        items = [st["e"] for st in b["stmts"] if st["s"] in ("expr", "semi")] + ([b["tail"]] if b.get("tail") else [])
        lets = [st for st in b["stmts"] if st["s"] == "let"]
        if lets or len(items) != 1:
            return e
        e = items[0]
    return e


def match_nest(F, blk):
    """match the element-wise initialising template inside a block; returns (ok, problems[])"""
    probs = []
    stmts = blk["stmts"]
    # 1. let (nrows, ncols) = SRC.shape_generic();
    shape_let = None
    uninit_let = None
    loops = []
    for st in stmts:
        if st["s"] == "let" and st.get("init"):
            init = st["init"]
            if init["k"] == "mcall" and init["m"] == "shape_generic" and st["pat"]["k"] == "tuple" and len(st["pat"]["pats"]) == 2:
                shape_let = st
            c = walk.callee_of(init)
            if init["k"] == "call" and c and c.get("name") == "uninit":
                uninit_let = st
        elif st["s"] in ("expr", "semi") and is_for(st["e"]):
            loops.append(st["e"])
    if shape_let is None or uninit_let is None or len(loops) != 1:
        return None, ["template statements (shape_generic, uninit, one loop nest) not found"]
    src_id = local_id(shape_let["init"]["recv"])
    rows_id, cols_id = (p.get("id") for p in shape_let["pat"]["pats"])
    res_id = uninit_let["pat"].get("id")
    ua = uninit_let["init"]["args"]
    if [local_id(a) for a in ua] != [rows_id, cols_id]:
        probs.append("uninit is not allocated with (nrows, ncols) of the source")
    # 2. the nest
    outer = for_parts(loops[0])
    if outer is None:
        return match_zip(F, blk, loops[0], src_id, res_id, probs)
    inner_e = single_stmt(outer[3])
    if not is_for(inner_e):
        return None, ["loop nest is not two directly nested range loops"]
    inner = for_parts(inner_e)
    if inner is None:
        return None, ["inner loop is not a range loop"]

    def dim_of(end):
        if end["k"] == "mcall" and end["m"] == "value":
            return local_id(end["recv"])
        return None

    def zero(e):
        return e["k"] == "lit" and e["lit"]["v"] == "0"
    dims = {outer[0]: dim_of(outer[1]), inner[0]: dim_of(inner[1])}
    if not (zero(outer[2]) and zero(inner[2])):
        probs.append("a loop range does not start at 0")
    if set(dims.values()) != {rows_id, cols_id}:
        probs.append("loop ranges are not exactly 0..nrows.value() and 0..ncols.value() of the source (found %s)" % (
            [expr_s(outer[1]), expr_s(inner[1])]))
    row_var = [v for v, d in dims.items() if d == rows_id]
    col_var = [v for v, d in dims.items() if d == cols_id]
    # 3. the innermost body: unsafe { let a = SRC.data.get_unchecked(i, j); *res.data.get_unchecked_mut(i, j) = MaybeUninit::new(..) }
    body = inner[3]
    reads, writes, bad = [], [], []
    for n in walk.walk(body):
        k = n.get("k")
        if k == "mcall" and n["m"] == "get_unchecked":
            reads.append(n)
        elif k == "mcall" and n["m"] == "get_unchecked_mut":
            writes.append(n)
        elif k in ("break", "continue", "if", "loop"):
            bad.append(k)
        elif k == "match" and not n.get("src", "").startswith("TryDesugar"):
            bad.append("match")
    if bad:
        probs.append("conditional / early-exit construct inside the nest: %s" % bad)
    if len(reads) != 1 or len(writes) != 1:
        probs.append("expected exactly one unchecked read and one unchecked write per element (found %d / %d)" % (len(reads), len(writes)))
    for n, who, want_base in [(r, "read", src_id) for r in reads] + [(w, "write", res_id) for w in writes]:
        base = n["recv"]
        if not (base["k"] == "field" and base["name"] == "data" and local_id(base["a"]) == want_base):
            probs.append("unchecked %s is not on the %s storage" % (who, "source" if who == "read" else "uninitialised result"))
        idx = [local_id(a) for a in n["args"]]
        if len(idx) != 2 or not row_var or not col_var or idx[0] != row_var[0] or idx[1] != col_var[0]:
            probs.append("unchecked %s does not use (row variable, column variable) in (row, column) slots: %s" % (who, expr_s(n)))
    # the write is an assignment through the mutable element reference
    assigns = [n for n in walk.walk(body) if n.get("k") == "assign"]
    if len(assigns) != 1:
        probs.append("expected exactly one assignment per element")
    # 4. assume_init after the nest on the same local
    tail = blk.get("tail")
    ai = [n for n in walk.walk(tail)] if tail else []
    ai = [n for n in ai if n.get("k") == "mcall" and n["m"] == "assume_init"]
    if len(ai) != 1 or local_id(ai[0]["recv"]) != res_id:
        probs.append("assume_init is not applied to the result after the complete nest")
    # also: no assume_init before / inside the loops
    for n in walk.walk(loops[0]):
        if n.get("k") == "mcall" and n["m"] == "assume_init":
            probs.append("assume_init inside the nest")
    early = any(n.get("k") == "match" and n.get("src", "").startswith("TryDesugar") for n in walk.walk(body))
    return (not probs), probs + (["note: early exit (`?`) inside the nest"] if early else [])


def match_zip(F, blk, loop, src_id, res_id, probs):
    """second template:  for (slot, a) in RES.iter_mut().zip(SRC.iter()) { slot.write(f(a)) }  with RES = uninit(shape of SRC):
    equal shapes give equal lengths and the same (column-major) traversal, so every slot is written exactly once"""
    it = loop["scrut"]["args"][0] if loop["scrut"].get("k") == "call" and loop["scrut"].get("args") else None
    if it is None or it.get("k") != "mcall" or it["m"] != "zip" or len(it["args"]) != 1:
        return None, ["the loop is neither a range nest nor iter_mut().zip(iter())"]
    l, r = it["recv"], it["args"][0]

    def side(e):
        e = peel_refs(e)
        if e.get("k") == "mcall" and e["m"] in ("iter_mut", "iter") and not e["args"]:
            return e["m"], local_id(e["recv"])
        return None, None
    (lm, lid), (rm, rid) = side(l), side(r)
    sides = {lm: lid, rm: rid}
    if set(sides) != {"iter_mut", "iter"}:
        return None, ["the loop is neither a range nest nor iter_mut().zip(iter())"]
    if sides["iter_mut"] != res_id:
        probs.append("the mutable iterator is not over the uninitialised result")
    if sides["iter"] != src_id:
        probs.append("the shared iterator is not over the source the result was shaped after")
    # loop pattern (slot, a) in the order of the zip
    arm = loop["arms"][0]
    lp = arm["body"]
    while lp["k"] == "block":
        lp = lp["b"]["tail"] or lp["b"]["stmts"][-1]["e"]
    inner = lp["body"]["stmts"][0]["e"] if lp["body"]["stmts"] else lp["body"]["tail"]
    some = [a for a in inner["arms"] if a["pat"].get("fields") or a["pat"].get("pats")][0]
    pat = some["pat"]["fields"][0]["pat"] if some["pat"]["k"] == "struct" else some["pat"]["pats"][0]
    if pat["k"] != "tuple" or len(pat["pats"]) != 2 or any(q["k"] != "bind" for q in pat["pats"]):
        return None, ["loop pattern is not a pair of bindings"]
    slot_id = pat["pats"][0 if lm == "iter_mut" else 1]["id"]
    body = some["body"]
    writes, bad = [], []
    for n in walk.walk(body):
        k = n.get("k")
        if k == "mcall" and n["m"] == "write" and local_id(n["recv"]) == slot_id:
            writes.append(n)
        elif k == "assign" and peel_refs(n["a"]).get("k") == "un" and local_id(peel_refs(n["a"])["a"]) == slot_id:
            writes.append(n)
        elif k in ("break", "continue", "if", "loop"):
            bad.append(k)
        elif k == "match" and not n.get("src", "").startswith("TryDesugar"):
            bad.append("match")
    if bad:
        probs.append("conditional / early-exit construct inside the loop: %s" % bad)
    if len(writes) != 1:
        probs.append("expected exactly one unconditional write to the slot per element (found %d)" % len(writes))
    tail = blk.get("tail")
    ai = [n for n in walk.walk(tail) if n.get("k") == "mcall" and n["m"] == "assume_init"] if tail else []
    if len(ai) != 1 or local_id(ai[0]["recv"]) != res_id:
        probs.append("assume_init is not applied to the result after the complete loop")
    for n in walk.walk(loop):
        if n.get("k") == "mcall" and n["m"] == "assume_init":
            probs.append("assume_init inside the loop")
    early = any(n.get("k") == "match" and n.get("src", "").startswith("TryDesugar") for n in walk.walk(body))
    return (not probs), probs + (["note: early exit (`?`) inside the loop"] if early else [])


def peel_refs(e):
    while e.get("k") in ("addr", "cast") or (e.get("k") == "block" and not e["b"]["stmts"] and e["b"].get("tail")):
        e = e["a"] if e["k"] != "block" else e["b"]["tail"]
    return e


def unsafe_sites(chk, F):
    ok_all = True
    n_nest = 0
    n_forward = 0
    for b in F.bodies.values():
        if facts.binding_layer(b["path"]):
            continue  # pyo3-generated trampolines: outside the conversions this property is about
        blocks = []
        for n in walk.walk_body(b):
            if n.get("k") == "block" and n["b"].get("unsafe"):
                # unsafe blocks produced by std macros (format_args! -> Arguments::new) are not the crate's own code
                if not F.locs[n["l"]]["s"].startswith("src/"):
                    continue
                blocks.append(n)
        if not blocks and not b.get("unsafe_fn"):
            continue
        chk.count("bodies with unsafe code")
        if b.get("unsafe_fn") and not blocks:
            # an unsafe fn of a trait impl: every unsafe callee must be the same-named operation on the parts
            callees = set()
            for n in walk.walk_body(b):
                c = walk.callee_of(n)
                if c and c.get("name", "").endswith("_unchecked"):
                    callees.add(c["name"])
            ok = callees <= {b["name"]}
            chk.ob("unsafe|forward|%s" % b["path"], ok, "an unsafe trait method only forwards to the unsafe method of the same name",
                   body_loc(F, b), found=sorted(callees), required=[b["name"]], nontrivial=False)
            n_forward += 1
            continue
        # bodies with unsafe blocks: must be the two template nests
        enclosing = [n for n in walk.walk_body(b) if n.get("k") == "block" and any(
            st["s"] == "let" and st.get("init") and st["init"].get("k") == "mcall" and st["init"].get("m") == "shape_generic" for st in n["b"]["stmts"])]
        matched = False
        for blk in enclosing:
            ok, probs = match_nest(F, blk["b"])
            notes = [p for p in probs if p.startswith("note:")]
            probs = [p for p in probs if not p.startswith("note:")]
            if ok is None:
                continue      # not one of the two recognised schemes: falls through to `unknown` below
            matched = True
            n_nest += 1
            chk.ob("unsafe|nest|%s" % b["path"], ok,
                   "unsafe element-wise map: bounded by the source's own shape, indices in their own slots, every element written once "
                   "unconditionally, assume_init only after the complete nest", body_loc(F, b), found="; ".join(probs) or "template matched",
                   required="template of DESIGN 5.C13.3")
            for nt in notes:
                chk.note("%s: %s — unreachable with today's float conversions (always Some); would leak initialised elements of a type "
                         "with a destructor" % (b["path"], nt))
            ok_all = ok_all and ok
        if not matched:
            # no positive evidence of a defect: an unsafe block outside the verified idioms is undecided, not violated
            chk.undecide("unsafe|unknown|%s" % b["path"], "%d unsafe block(s) outside the verified templates" % len(blocks), body_loc(F, b))
            ok_all = False
    chk.count("unsafe loop nests matched", n_nest)
    chk.count("unsafe forwarding methods", n_forward)
    return ok_all
