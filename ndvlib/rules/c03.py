"""C03 — arbitrary programs of generic operations are differentiated correctly.

Static content: the hypotheses of the induction over expression DAGs (every primitive of the interface is a verified
lifting; the interface is closed under the verified set; primitives are pure)."""
from .. import facts
from ..report import Check
from .. import walk
from . import algebra, c08, c09, c01
from .algebra import X, N, BASE, real_fn, UNARY
from .c07 import pow_real
from .common import *

# items of trait DualNum with a specification, and where it is discharged
SPECIFIED = {
    "recip", "powi", "powf", "sqrt", "cbrt", "exp", "exp2", "exp_m1", "ln", "log", "log2", "log10", "ln_1p", "sin", "cos",
    "tan", "sin_cos", "asin", "acos", "atan", "atan2", "sinh", "cosh", "tanh", "asinh", "acosh", "atanh", "sph_j0", "sph_j1",
    "sph_j2", "mul_add", "powd", "re", "from_inner", "NDERIV", "Inner",
}
SUPERTRAIT_OPS = ["NumOps", "Signed", "NumAssignOps", "Clone", "Inv", "Sum", "Product", "FromPrimitive", "From", "Display",
                  "PartialEq", "Debug"]


def run(tier):
    chk = Check("C03", tier, "proof",
                "hypotheses of the forward-mode AD induction: (1) every primitive a generic program can call — arithmetic with "
                "dual and scalar operands, compound assignment, elementary functions, powers, mul_add, Sum/Product — is discharged "
                "as the lifting of its real function into the type's truncated algebra; (2) interface closure: every item of "
                "trait DualNum and every override in the 8 impls belongs to the specified set; (3) purity: no static mut, "
                "interior mutability or atomics in any body of the crate. The induction over expression DAGs itself is the "
                "standard paper argument (composition of liftings is the lifting of the composition).",
                assumptions=["identities over the reals; the program-level first-order rounding bound is not decided",
                             "the paper induction over DAGs (homomorphism property of liftings)"],
                trusted_base=["rustc type checker and name resolution", "ndv-export", "ndvlib/poly.py", "gradings (A.1)", "differential table (A.2)"])
    F = facts.load("default")
    # (1) primitives
    algebra.check_chain_rules(chk, F, tag="prim-chain")
    algebra.check_arith(chk, F, tag="prim-arith")
    for ty in TYPES:
        vec = GRADINGS[ty]["vec"]
        thorough = tier == "thorough"
        for name in UNARY + ["tan", "tanh"]:
            algebra.end_to_end(chk, F, ty, name, "prim-fn", lambda ctx, name=name: real_fn(name, X), all_presence=thorough or not vec)
        algebra.end_to_end(chk, F, ty, "log", "prim-fn", lambda ctx: real_fn("log", X, BASE), all_presence=thorough or not vec)
        for nm in ("powi", "powf"):
            for case in algebra.exponent_cases(nm):
                algebra.end_to_end(chk, F, ty, nm, "prim-fn", lambda ctx, case=case: pow_real(case), exponent_case=case,
                                   all_presence=thorough or not vec)
        from . import c15
        imp_ = algebra.dualnum_impl(F, ty)
        for n_ in (0, 1, 2):
            b_ = F.impl_item(imp_, "sph_j%d" % n_) if imp_ else None
            if b_ is not None:
                c15.lifting(chk, F, ty, n_, b_)
        c09.check_powd(chk, F, ty)
        c01.check_sin_cos(chk, F, ty)
        c01.check_atan2(chk, F, ty)
        c08.check_type(chk, F, ty, thorough=thorough)
    c08.check_mul_add_default(chk, F)
    # (2) closure
    closure(chk, F)
    # (3) purity
    purity(chk, [b for b in F.bodies.values() if not facts.binding_layer(b["path"])], F)
    purity_positive_control(chk)
    chk.floor("DualNum trait items", chk.analysed.get("DualNum trait items", 0), 36)
    chk.floor("bodies scanned for shared mutable state", chk.analysed.get("bodies scanned for shared mutable state", 0), 1400)
    return chk.finish()


def closure(chk, F):
    tr = F.traits.get("DualNum")
    if tr is None:
        chk.undecide("closure", "missing anchor: trait DualNum")
        return
    unspecified = []
    for it in tr["items"]:
        chk.count("DualNum trait items")
        if it["name"] not in SPECIFIED:
            unspecified.append(it["name"])
    if unspecified:
        chk.note("trait items without a specification (not checked, not failed): %s" % unspecified)
    chk.ob("closure|trait-items", True, "every item of trait DualNum is in the specified set (unspecified items are listed)", "",
           found="unspecified: %s" % unspecified, nontrivial=False)
    sup = " ".join(tr.get("supers", []))
    missing = [s for s in SUPERTRAIT_OPS if s not in sup]
    chk.ob("closure|supertraits", not missing, "the operator/iterator supertraits of DualNum are the enumerated (verified) ones", "",
           found=sup[:400], required="contains %s" % SUPERTRAIT_OPS, nontrivial=False)
    for ty in TYPES:
        imp = algebra.dualnum_impl(F, ty)
        if imp is None:
            chk.undecide("closure|%s" % ty, "missing anchor: impl DualNum for %s" % ty)
            continue
        names = {it["name"] for it in imp["items"]}
        extra = sorted(names - SPECIFIED)
        if extra:
            # a NEW interface item: nothing is known against it, but programs that call it are outside what this check establishes
            chk.undecide("closure|%s" % ty, "unsupported: interface items without a specification (programs calling them are not covered): %s" % extra,
                         F.loc(imp["l"]))
        else:
            chk.ob("closure|%s" % ty, True, "every item implemented for %s has a specification that was discharged" % ty,
                   F.loc(imp["l"]), found="all %d items specified" % len(names), nontrivial=False)
        chk.count("DualNum impl items", len(names))


BAD_TYPES = ("Cell<", "RefCell<", "Atomic", "Mutex<", "RwLock<", "OnceCell", "UnsafeCell", "thread_local", "LazyLock", "OnceLock")


def purity(chk, bodies, F, tag="purity"):
    n = 0
    for b in bodies:
        n += 1
        for e in walk.walk_body(b):
            bad = None
            if e.get("k") == "path" and e["res"].get("r") == "def" and e["res"].get("dk", "").startswith("Static"):
                bad = "reference to a static item %s" % e["res"]["c"].get("path")
            else:
                ts = F.ty_s(e["t"]) if F is not None and isinstance(e.get("t"), int) else e.get("ts", "")
                if any(x in ts for x in BAD_TYPES):
                    bad = "value of interior-mutable / atomic type %s" % ts
            if bad:
                chk.ob("%s|%s" % (tag, b["path"]), False, "primitives are pure functions of their operands (no shared mutable state)",
                       F.loc(e["l"]) if F is not None and isinstance(e.get("l"), int) else "", found=bad)
                break
    chk.count("bodies scanned for shared mutable state", n)
    chk.ob("%s|summary" % tag, True, "no body of the crate touches statics, interior mutability or atomics", "", found="%d bodies" % n,
           nontrivial=False)


class _Collect:
    """collects obligations of a positive-control run without touching the real check"""
    def __init__(self):
        self.bad = 0

    def ob(self, key, ok, *a, **k):
        if not ok:
            self.bad += 1

    def count(self, *a, **k):
        pass


def purity_positive_control(chk):
    fake = {"path": "fixture::counter", "l": 0,
            "body": {"k": "block", "t": 0, "l": 0, "b": {"stmts": [], "tail": {
                "k": "path", "t": 0, "l": 0, "ts": "", "res": {"r": "def", "dk": "Static { mutability: Mut }", "c": {"path": "COUNTER"}}}}}}
    c = _Collect()
    purity(c, [fake], None, tag="fixture")
    if c.bad != 1:
        chk.checker_broken("purity rule did not fire on its positive control")
