"""C14 — cylindrical Bessel functions (narrow claim: parity, interface purity, small-argument series)."""
import hashlib

from .. import facts
from ..report import Check
from .. import series, walk
from . import algebra
from .common import *
from .c15 import XR, XA, ordinal

TOL = Fr(1, 2 ** 50)
TABLES = {}   # hash -> (kind, [Fraction coefficients])
MAX_ORDER = 4
PARITY = {0: 1, 1: -1, 2: 1}
REGIONS = [("tiny", Fr(1, 10 ** 6)), ("mid", Fr(1)), ("large", Fr(10))]


def table_hook(it, body, args):
    hc = horner_call(it.F, body, args)
    if hc is not None:
        kind, x, coef = hc
        if isinstance(x, Sc):
            nm = "polevl" if kind == "poly" else "p1evl"
            h = hashlib.sha1(repr([unref(c).v.show() for c in coef]).encode()).hexdigest()[:8]
            TABLES[h] = (nm, [unref(c).v.const_value() for c in coef])
            return Sc(apply_fn("%s#%s" % (nm, h), x.v))
    return NotImplemented


def run(tier):
    chk = Check("C14", tier, "other",
                "NARROW claim. (1) parity: bessel_j0/j2 even and bessel_j1 odd as dual-valued functions — for every region (tiny, |x|<=5, "
                "|x|>5) the canonical form computed for a negative argument, mirrored, equals +-the form for the positive argument (all "
                "guards are decided by the real part; coefficient tables are opaque functions of x^2); (2) interface purity: bessel.rs touches "
                "its operand only through DualNum / operator items, hence derivative parts are those of the computed real function (C03); "
                "(2') decided on the bodies in dual mode: for every type, presence pattern and region sample (0 with both signs of zero, "
                "+-1e-6, +-1) every part is the formal derivative of the real function the scalar interpretation of the same path computes; "
                "the Signed / DualNum items bessel.rs calls satisfy their own lifting rules; "
                "(3) small-argument series: the polynomial of each small-argument arm coincides with the Maclaurin polynomial of J_n up to its "
                "own degree and the truncation is adequate for derivative orders 0..4 at the arm's threshold (exact rational bound vs 2^-50). "
                "NOT decided: accuracy of the rational approximations on |x|<=5 and of the asymptotic form beyond, continuity across |x|=5, "
                "the coefficient tables.",
                assumptions=["identities over the reals", "the approximation accuracy of the Cephes-style tables is out of reach of this family"],
                trusted_base=["rustc type checker and name resolution", "ndv-export", "ndvlib/poly.py", "ndvlib/series.py"])
    F = facts.load("default")
    tr = F.traits.get("bessel::BesselDual")
    if tr is None:
        chk.undecide("bessel", "missing anchor: trait BesselDual")
        return chk.finish()
    bodies = {it["name"]: F.bodies.get(it["did"]) for it in tr["items"]}
    for n in (0, 1, 2):
        body = bodies.get("bessel_j%d" % n)
        if body is None:
            chk.undecide("bessel|j%d" % n, "missing anchor")
            continue
        chk.count("bessel bodies")
        parity(chk, F, body, n)
        small_series(chk, F, body, n)
    switch_points(chk, F, bodies)
    rational_arm_series(chk, F, bodies)
    asymptotic_arm(chk, F, bodies)
    approximant_grid(chk, F, bodies, dense=(tier == "thorough"))
    purity(chk, F)
    # (2b) the operations bessel.rs is built from (+ - * / between dual numbers, the chain rule behind sqrt / sin / cos / recip) are
    # the operations of the truncated algebra: rule sets of C02 / C01, reused — purity reduces C14's derivative parts to exactly these
    algebra.check_arith(chk, F, tag="ops")
    algebra.check_chain_rules(chk, F, tag="ops-chain")
    # ... in every operand form, including the dual-with-float forms (`z / 4.0` on a nested type divides the INNER dual numbers in place)
    from . import c08
    for ty in TYPES:
        c08.check_type(chk, F, ty, thorough=False)
    interface_deps(chk, F)
    # (thorough: the asymptotic arm as well, on the positive side -- about a minute; the negative side takes minutes per type)
    dual_lifting(chk, F, bodies, samples=LIFT_SAMPLES + ([("far+", Fr(6))] if tier == "thorough" else []))
    chk.floor("dual-mode liftings", chk.analysed.get("dual-mode liftings", 0), 300)
    chk.floor("bessel bodies", chk.analysed.get("bessel bodies", 0), 3)
    return chk.finish()


LIFT_SAMPLES = [("zero", Fr(0)), ("tiny+", Fr(1, 10 ** 6)), ("tiny-", Fr(-1, 10 ** 6)), ("mid+", Fr(1)), ("mid-", Fr(-1))]
# (the asymptotic arm beyond |x| = 5 is not lifted in dual mode: its canonical forms with sin / cos / sqrt of shifted arguments take
# minutes per type; the interface items it is built from bring their own rule sets, see interface_deps)


def signed_zero_oracle(env):
    """like sample_oracle, but a real part that evaluates to 0 has either sign bit: the sign predicates stay free there (both the +0.0 and
    the -0.0 outcome are explored), because `is_positive` / `is_negative` of a float are sign-bit tests"""
    from .common import _poly_from_key_cache as cache
    base = sample_oracle(env)

    def oracle(key, descr, ctx):
        if key[0] == "pred" and key[1] in ("is_positive", "is_negative", "is_sign_positive", "is_sign_negative"):
            p = cache.get(key[2])
            if p is not None and eval_poly(p, env) == 0:
                return None
        return base(key, descr, ctx)
    return oracle


def dual_lifting(chk, F, bodies, types=None, samples=None):
    """(2') what purity promises, decided on the bodies themselves: interpreted on a full dual operand (every part symbolic, every presence
    pattern) along the path taken for a real part in each region -- at a zero real part along the paths of both signs of zero -- every part
    of bessel_jn is the formal derivative of the real function the same path computes (scalar interpretation of the same body), composed
    with the operand's parts.  A reflection / shortcut that returns the right real value but drops, replaces or re-signs derivative
    parts on some path (for instance an `abs` that yields a plain zero at -0.0) fails here."""
    from .algebra import X
    for n in (0, 1, 2):
        body = bodies.get("bessel_j%d" % n)
        if body is None:
            continue
        for sname, sval in (samples or LIFT_SAMPLES):
            key1 = "bessel|j%d|lift|%s" % (n, sname)
            # the real function of this region, explicit (tables expanded), from the scalar interpretation of the same body
            try:
                env1 = {XA: sval, ("c", "EPS"): EPS_VALUE}

                def thunk(ctx):
                    it = Interp(F, DOMK, ctx=ctx)
                    it.scalar_mode = True
                    return it.call_body(body, [Sc(XR)])
                sp_paths = explore(thunk, sample_oracle(env1))
            except Unsupported as ex:
                chk.undecide(key1, "unsupported: %s" % ex, body_loc(F, body))
                continue
            if len(sp_paths) != 1 or not isinstance(unref(sp_paths[0][1]), Sc):
                chk.undecide(key1, "the scalar interpretation has %d paths" % len(sp_paths), body_loc(F, body))
                continue
            sgn = 1 if sval >= 0 else -1
            P = resolve_sign(unref(sp_paths[0][1]).v, sgn).subst(lambda a: X if a == XA else None)
            for ty in (types or TYPES):
                for pa in presence_patterns(ty):
                    sp = Spec(ty, absent_set("self", pa))
                    key0 = "%s|%s|presence=%s" % (key1, ty, pres_tag(pa))
                    env = {("v", "self.re", ()): sval, ("c", "EPS"): EPS_VALUE}
                    try:
                        paths = run_paths(F, body, lambda: [sp.operand("self", pa)], oracle=signed_zero_oracle(env))
                        want = sp.spec_of_real(P)
                    except Unsupported as ex:
                        chk.undecide(key0, "unsupported: %s" % ex, body_loc(F, body))
                        continue
                    for ctx, val, it, args in paths:
                        key = key0 if len(paths) == 1 else key0 + "|path=" + path_descr(ctx)
                        if isinstance(val, PanicEx):
                            chk.ob(key, False, "bessel_j%d is total" % n, body_loc(F, body), found="panic: %s" % val.what)
                            continue
                        try:
                            compare_parts(chk, key, "bessel_j%d on %s (real part %s): every part is the formal derivative of the real function "
                                          "computed on this path, composed with the operand's parts" % (n, ty, sname), body_loc(F, body), sp,
                                          val, want)
                            chk.count("dual-mode liftings")
                        except Unsupported as ex:
                            chk.undecide(key, "unsupported: %s" % ex, body_loc(F, body))


def interface_deps(chk, F):
    """purity reduces the derivative parts of the Bessel routines to those of the interface items they call; the items other than the
    arithmetic are looked up in the bodies (resolved callees) and each brings its own rule set: the sign items of `Signed`
    (abs / signum must be +-self resp. a constant on EVERY path, including the paths taken at a zero real part, where J_n is smooth)
    and the elementary functions of `DualNum` (whole-method liftings, every part, every presence pattern)."""
    from . import c01
    from .algebra import X, real_fn, UNARY
    called = set()
    for b in F.bodies.values():
        if not b["path"].startswith("bessel::"):
            continue
        for e in walk.walk_body(b):
            c = walk.callee_of(e)
            if c and c.get("trait") and c.get("name"):
                called.add((c["trait"].split("::")[-1], c["name"]))
    if any(t == "Signed" and n in ("abs", "signum", "abs_sub") for t, n in called):
        for ty in TYPES:
            # (the paths of `abs` at a zero real part are left out here: |x| has a kink there and is not constrained by itself; whether the
            # Bessel routines lose derivative parts through them is decided on the Bessel bodies by dual_lifting)
            c01.check_signed(chk, F, ty, zero_paths=False)
        chk.count("interface items with their own rule set")
    for t, n in sorted(called):
        if t != "DualNum":
            continue
        if n in UNARY or n in ("tan", "tanh"):
            for ty in TYPES:
                algebra.end_to_end(chk, F, ty, n, "lift", lambda ctx, n=n: real_fn(n, X))
            chk.count("interface items with their own rule set")
        elif n == "sin_cos":
            for ty in TYPES:
                c01.check_sin_cos(chk, F, ty)
            chk.count("interface items with their own rule set")


def eval_at(F, body, sample):
    """canonical real form of the body for an argument whose real part has the given sample value"""
    env = {XA: sample, ("c", "EPS"): EPS_VALUE}

    def thunk(ctx):
        it = Interp(F, DOMK, ctx=ctx, hooks=[table_hook])
        it.scalar_mode = True
        return it.call_body(body, [Sc(XR)])
    paths = explore(thunk, sample_oracle(env))
    return paths


def resolve_sign(p, sign):
    """replace |x| and signum(x) by their value for the given sign of x"""
    def f(a):
        if a[0] == "f" and a[1] == "abs" and a[2] == XR:
            return XR if sign > 0 else -XR
        if a[0] == "f" and a[1] == "signum" and a[2] == XR:
            return Poly.const(1 if sign > 0 else -1)
        return None
    return p.subst(f)


def parity(chk, F, body, n):
    for rname, v in REGIONS:
        key = "bessel|j%d|parity|%s" % (n, rname)
        try:
            pp = eval_at(F, body, v)
            pn = eval_at(F, body, -v)
        except Unsupported as ex:
            chk.undecide(key, "unsupported: %s" % ex, body_loc(F, body))
            continue
        if len(pp) != 1 or len(pn) != 1:
            chk.ob(key, False, "all guards are decided by the real part of the argument", body_loc(F, body),
                   found="%d / %d paths: %s" % (len(pp), len(pn), [path_descr(c) for c, _ in pp + pn][:4]))
            continue
        fp, fn = unref(pp[0][1]), unref(pn[0][1])
        if not (isinstance(fp, Sc) and isinstance(fn, Sc)):
            chk.ob(key, False, "result is a number", body_loc(F, body), found=repr(fp)[:80])
            continue
        P = resolve_sign(fp.v, +1)
        Nn = resolve_sign(fn.v, -1)
        mirrored = Nn.subst(lambda a: -XR if a == XA else None)
        mirrored = resolve_sign_after(mirrored)
        ok = equal(mirrored, P.scale(PARITY[n]))
        chk.ob(key, ok, "J%d is %s: the form computed for -x, mirrored, equals %sthe form computed for x (region %s)" % (
            n, "even" if PARITY[n] > 0 else "odd", "" if PARITY[n] > 0 else "minus ", rname), body_loc(F, body),
            found=mirrored.show()[:300], required=P.scale(PARITY[n]).show()[:300])
        chk.count("parity regions")


def resolve_sign_after(p):
    return p


def small_series(chk, F, body, n):
    true = series.bessel_j(n)
    for label, sample in (("zero", Fr(0)), ("tiny", Fr(1, 10 ** 6))):
        try:
            paths = eval_at(F, body, sample)
        except Unsupported as ex:
            chk.undecide("bessel|j%d|series|%s" % (n, label), "unsupported: %s" % ex, body_loc(F, body))
            continue
        if len(paths) != 1:
            continue
        ctx, val = paths[0]
        v = unref(val)
        if not isinstance(v, Sc):
            continue
        p = resolve_sign(v.v, +1)
        code = series.poly_coeffs(p, XA)
        if code is None:
            # not a polynomial arm (rational approximation): out of the narrow claim
            chk.note("J%d at %s argument: rational-approximation arm (accuracy not decided)" % (n, label))
            continue
        # threshold of the arm: the strongest upper bound on |x| among its guards
        h = arm_threshold(ctx, sample)
        key = "bessel|j%d|series|%s" % (n, label)
        d = len(code) - 1
        chk.count("series arms")
        okc = all(code[i] == (true[i] if i < len(true) else 0) for i in range(len(code)))
        chk.ob(key + "|coefficients", okc, "the small-argument arm coincides with the Maclaurin polynomial of J%d up to its own degree %d" % (n, d),
               body_loc(F, body), found=[str(c) for c in code], required=[str(c) for c in true[:len(code)]])
        if h is None:
            chk.undecide(key + "|adequacy", "threshold of the arm not recognised", body_loc(F, body))
            continue
        for k in range(0, MAX_ORDER + 1):
            bound = series.derivative_error_bound(code, true, k, h)
            chk.ob(key + "|adequacy|order=%d" % k, bound <= TOL,
                   "for |x| <= %s the %s derivative of the arm differs from that of J%d by at most 2^-50" % (float(h), ordinal(k), n),
                   body_loc(F, body), found="error bound %.3e (degree-%d arm)" % (float(bound), d), required="<= %.3e" % float(TOL))


def arm_threshold(ctx, sample):
    from .common import _poly_from_key_cache as cache
    best = None
    for (k, d, b, forced) in ctx.trace:
        if k[0] == "pred" and k[1] == "is_zero" and b:
            return Fr(0)
        if k[0] == "cmp" and k[1] == "==" and b:
            lhs, rhs = cache.get(k[2]), cache.get(k[3])
            if lhs is not None and rhs is not None:
                for u, v in ((lhs, rhs), (rhs, lhs)):
                    if v.const_value() == 0 and XA in u.atoms_deep():
                        return Fr(0)
        if k[0] == "cmp" and k[1] in ("<", "<="):
            from .c15 import oriented
            lhs, op, rhs, b = oriented(k, b)
            if not b or rhs is None or lhs is None:
                continue
            c = rhs.const_value()
            if c is None:
                continue
            # lhs must be x, -x or |x|
            if XA in lhs.atoms_deep():
                best = c if best is None else min(best, c)
    return best


def purity(chk, F):
    n = 0
    bad = []
    for b in F.bodies.values():
        if not b["path"].startswith("bessel::"):
            continue
        n += 1
        for e in walk.walk_body(b):
            if e.get("k") == "field":
                t = F.peel(e["a"]["t"])
                if t["k"] == "param" or (t["k"] == "adt" and t.get("local")):
                    bad.append("%s reads field %s of %s at %s" % (b["path"], e["name"], t.get("s"), F.loc(e["l"])))
            c = walk.callee_of(e)
            if c and c.get("local") and not (c.get("trait") or c.get("path", "").startswith("bessel::")):
                bad.append("%s calls %s" % (b["path"], c.get("path")))
    chk.ob("bessel|purity", not bad, "the Bessel routines use their operand only through the generic interface (no access to parts)", "src/bessel.rs",
           found="; ".join(bad[:5]) or "%d bodies, no part access" % n, nontrivial=False)
    chk.count("bessel.rs bodies", n)


GRID = [Fr(1, 2), Fr(1), Fr(2), Fr(9, 4), Fr(3), Fr(4), Fr(49, 10), Fr(5), Fr(51, 10), Fr(6), Fr(10), Fr(30)]


def arm_kind(p):
    names = set()
    for a in p.atoms_deep():
        if a[0] == "f":
            names.add(a[1].split("#")[0])
    if "sin" in names or "cos" in names:
        return "asymptotic"
    if "polevl" in names or "p1evl" in names:
        return "rational"
    return "series"


def switch_points(chk, F, bodies):
    """sibling rule: J0 and J1 (same Cephes construction) switch between the rational approximation and the asymptotic form at the
    same bound on |x|; every guard that separates the two compares |x| itself (not x^2, not x) with the bound"""
    from .common import _poly_from_key_cache as cache
    kinds = {}
    for n in (0, 1):
        body = bodies.get("bessel_j%d" % n)
        if body is None:
            continue
        bad_guard = []
        for v in GRID:
            for sgn in (1, -1):
                x = v * sgn
                try:
                    paths = eval_at(F, body, x)
                except Unsupported as ex:
                    chk.undecide("bessel|j%d|switch" % n, "unsupported: %s" % ex, body_loc(F, body))
                    return
                if len(paths) != 1 or not isinstance(unref(paths[0][1]), Sc):
                    continue
                ctx, val = paths[0]
                kinds[(n, x)] = arm_kind(unref(val).v)
                env = {XA: x, ("c", "EPS"): EPS_VALUE}
                for (k, d, b, forced) in ctx.trace:
                    if k[0] == "cmp" and k[1] in ("<", "<="):
                        lhs, rhs = cache.get(k[2]), cache.get(k[3])
                        if lhs is None or rhs is None or rhs.const_value() is None or rhs.const_value() < 1:
                            continue
                        lv = eval_poly(lhs, env)
                        if lv is not None and lv != abs(x):
                            bad_guard.append("at x = %s the switch compares %s (= %s) with %s instead of |x| = %s" % (
                                x, resolve_sign(lhs, sgn).show(), lv, rhs.const_value(), abs(x)))
        chk.ob("bessel|j%d|switch|argument" % n, not bad_guard,
               "the guard between the rational approximation and the asymptotic form compares |x| with the switch-over bound",
               body_loc(F, body), found="; ".join(sorted(set(bad_guard))[:3]) or "guards compare |x|", required="|x| <= bound")
    diff = []
    for v in GRID:
        for sgn in (1, -1):
            x = v * sgn
            k0, k1 = kinds.get((0, x)), kinds.get((1, x))
            if k0 and k1 and k0 != k1 and "series" not in (k0, k1):
                diff.append("x = %s: J0 uses the %s arm, J1 the %s arm" % (x, k0, k1))
    chk.ob("bessel|switch|siblings", not diff and len(kinds) >= 40,
           "J0 and J1 use the same kind of approximation (rational for |x| <= bound, asymptotic beyond) at every grid point", "src/bessel.rs",
           found="; ".join(diff[:4]) or "%d grid evaluations agree" % len(kinds), required="identical arm kinds")
    chk.count("switch grid evaluations", len(kinds))


def horner_series_hook(it, body, args):
    """polevl / p1evl over a constant table, in the arithmetic of the current domain (used with the power-series domain)"""
    hc = horner_call(it.F, body, args)
    if hc is not None:
        kind, x, coef = hc
        if not isinstance(x, Sc):
            return NotImplemented
        cs = [unref(c).v for c in coef]
        d = it.dom
        if kind == "poly":
            acc, rest = cs[0], cs[1:]
        else:
            acc, rest = d.const(1), cs
        for c in rest:
            acc = d.add(d.mul(acc, x.v), c)
        return Sc(acc)
    return NotImplemented


def rational_arm_series(chk, F, bodies):
    """the arm used around 0 (rational approximation in x^2, J2 by recurrence), expanded as an exact power series from the
    coefficient tables, agrees with the Maclaurin series of J_n: value and derivatives 1..4 at 0 to 1e-13"""
    from ..doms import DomS, Ser
    from math import factorial
    for n in (0, 1, 2):
        body = bodies.get("bessel_j%d" % n)
        if body is None:
            continue
        dom = DomS(1)
        key = "bessel|j%d|rational-arm|maclaurin" % n

        def thunk(ctx):
            it = Interp(F, dom, ctx=ctx, hooks=[horner_series_hook])
            it.scalar_mode = True
            return it.call_body(body, [Sc(Ser([0, 1]))])
        try:
            paths = explore(thunk, dom.oracle)
        except (Unsupported, ValueError, ZeroDivisionError) as ex:
            chk.undecide(key, "unsupported: %s" % ex, body_loc(F, body))
            continue
        if len(paths) != 1 or not isinstance(unref(paths[0][1]), Sc):
            chk.undecide(key, "the arm around 0 is not a single rational expression", body_loc(F, body))
            continue
        got = unref(paths[0][1]).v.c
        true = series.bessel_j(n)
        worst = max(abs(got[k] - true[k]) * factorial(k) for k in range(MAX_ORDER + 1))
        chk.ob(key, worst <= Fr(1, 10 ** 13),
               "the rational-approximation arm reproduces J%d and its derivatives of order 1..4 at 0 (series computed exactly from the tables)" % n,
               body_loc(F, body), found="largest derivative error at 0: %.2e; coefficients %s" % (float(worst), [float(c) for c in got[:7]]),
               required="<= 1e-13; Maclaurin %s" % [float(c) for c in true[:7]])
        chk.count("rational arms expanded")


GRID = [Fr(1, 2), Fr(1), Fr(3, 2), Fr(2), Fr(5, 2), Fr(3), Fr(7, 2), Fr(4), Fr(9, 2), Fr(4999, 1000),       # rational arm (|x| <= 5)
        Fr(501, 100), Fr(6), Fr(73, 10), Fr(9), Fr(12), Fr(17), Fr(25), Fr(40)]                                    # asymptotic arm
GRID_TOL = Fr(1, 10 ** 16)


def approximant_grid(chk, F, bodies, dense=False):
    """the formula the analysis extracts for each arm (coefficient tables included, read from the facts) is evaluated at grid points on
    both sides in 60-digit arithmetic and compared with J_n from its exact Maclaurin series: the tables ARE approximations of J_n"""
    from ..domq import DomQ, bessel_ref, to_d
    dom = DomQ()
    for n in (0, 1, 2):
        body = bodies.get("bessel_j%d" % n)
        if body is None:
            continue
        worst, where, bad, n_pts = 0, None, [], 0
        grid = list(GRID)
        if dense:
            # thorough tier: step 1/10 over (0, 60], the neighbourhoods of both switch points, and tiny arguments
            grid = sorted(set(grid) | {Fr(k, 10) for k in range(1, 601)} | {Fr(5) - Fr(1, 10 ** k) for k in (3, 6, 9, 12)} |
                          {Fr(5) + Fr(1, 10 ** k) for k in (3, 6, 9, 12)} | {Fr(1, 10 ** 5) * (1 + Fr(s_, 1000)) for s_ in (-1, 1)} |
                          {Fr(1, 10 ** k) for k in (2, 3, 4, 6, 9, 20)})
        for x in grid:
            for sgn in (1, -1):
                xv = to_d(x * sgn)

                def thunk(ctx):
                    it = Interp(F, dom, ctx=ctx, hooks=[horner_series_hook])
                    it.scalar_mode = True
                    return it.call_body(body, [Sc(xv)])
                try:
                    paths = explore(thunk, dom.oracle)
                except (Unsupported, ValueError, ZeroDivisionError, ArithmeticError) as ex:
                    chk.undecide("bessel|j%d|grid" % n, "unsupported: %s" % ex, body_loc(F, body))
                    paths = None
                    break
                if len(paths) != 1 or not isinstance(unref(paths[0][1]), Sc):
                    chk.undecide("bessel|j%d|grid" % n, "unsupported: evaluation at a point does not follow a single path", body_loc(F, body))
                    paths = None
                    break
                got = unref(paths[0][1]).v
                ref = bessel_ref(n, x) * (1 if (sgn > 0 or n % 2 == 0) else -1)
                err = abs(got - ref)
                n_pts += 1
                if err > worst:
                    worst, where = err, float(x * sgn)
                if err > to_d(GRID_TOL):
                    bad.append("J%d(%s): formula gives %.17g, J%d is %.17g (difference %.2e)" % (n, float(x * sgn), float(got), n, float(ref), float(err)))
            if paths is None:
                break
        else:
            chk.ob("bessel|j%d|grid" % n, not bad, "the extracted approximant (rational arm for |x| <= 5, asymptotic arm beyond; tables from the "
                   "source) agrees with J%d at %d grid points on both arms and both signs to 1e-16" % (n, n_pts), body_loc(F, body),
                   found=bad[:3] or "largest difference %.2e at x = %s" % (float(worst), where), required="<= 1e-16 (absolute; the pinned tables reach 6e-18)")
            chk.count("approximant grid points", n_pts)


def asymptotic_arm(chk, F, bodies):
    """leading behaviour of the asymptotic arm: sqrt(2/(pi x)) (P cos(x - phi) - Q sin(x - phi)), phi = (2n+1) pi/4, with
    P -> 1 and Q -> (4n^2-1)/(8x) as x -> infinity (table functions evaluated at argument 0 = their last coefficient)"""
    for n in (0, 1):
        body = bodies.get("bessel_j%d" % n)
        if body is None:
            continue
        key = "bessel|j%d|asymptotic-arm|leading" % n
        try:
            paths = eval_at(F, body, Fr(30))
        except Unsupported as ex:
            chk.undecide(key, "unsupported: %s" % ex, body_loc(F, body))
            continue
        if len(paths) != 1 or not isinstance(unref(paths[0][1]), Sc):
            chk.undecide(key, "no single asymptotic arm", body_loc(F, body))
            continue
        form = resolve_sign(unref(paths[0][1]).v, +1)
        # limit x -> infinity inside the table functions: their argument 25/x^2 -> 0
        def lim(a):
            if a[0] == "f" and "#" in a[1]:
                h = a[1].split("#")[1]
                if h in TABLES:
                    kind, cs = TABLES[h]
                    return Poly.const(cs[-1])
            return None
        limit_form = form.subst(lim)
        amp = Poly.sym("FRAC_2_PI").pow(E(Fr(1, 2)))
        phi = Poly.sym("FRAC_PI_4").scale(2 * n + 1)
        want = amp * XR.pow(E(Fr(-1, 2))) * apply_fn("cos", XR - phi) - amp.scale(Fr(4 * n * n - 1, 8)) * XR.pow(E(Fr(-3, 2))) * apply_fn("sin", XR - phi)
        # compare monomial by monomial with a tolerance on the (decimal) table constants
        diff = limit_form - want
        worst = max([abs(c) for c in diff.t.values()] or [Fr(0)])
        structure_ok = set(limit_form.t) == set(want.t) or worst <= Fr(1, 10 ** 12)
        chk.ob(key, structure_ok and worst <= Fr(1, 10 ** 12),
               "for large x the asymptotic arm is sqrt(2/(pi x)) (cos(x - %d pi/4) - %s/(8x) sin(x - %d pi/4)) to leading orders" % (2 * n + 1, 4 * n * n - 1, 2 * n + 1),
               body_loc(F, body), found=limit_form.show()[:300], required=want.show()[:300])
        chk.count("asymptotic arms checked")
