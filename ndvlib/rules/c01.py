"""C01 — elementary functions carry exact derivatives on every dual number type."""
from .. import facts
from ..report import Check
from . import algebra
from .algebra import X, N, BASE, real_fn, UNARY
from .common import *


def run(tier):
    chk = Check("C01", tier, "proof",
                "closed forms: f0 is the function of the real part and f(k+1) = d/dx f(k) by formal differentiation "
                "of the code's own canonical form; each type's chain rule equals the truncated Faa di Bruno formula; "
                "whole-method liftings (every part, every presence pattern, every decision-tree path) equal the formal "
                "derivatives of the real function; abs/signum/abs_sub branch on the real part only",
                assumptions=["identities over the reals; the roundoff bound of the statement is not decided",
                             "domains of definition are not analysed (formal terms)"],
                trusted_base=["rustc type checker and name resolution", "ndv-export", "ndvlib/poly.py rewriter",
                              "differential table (DESIGN A.2)", "gradings (DESIGN A.1)"])
    F = facts.load("default")
    for p in check_grading_against_adts(F):
        chk.undecide("grading", p)
    algebra.check_chain_rules(chk, F)
    algebra.check_closed_forms(chk, F)
    # whole-method liftings
    for ty in TYPES:
        quick_presence = True
        for name in UNARY + ["tan", "tanh"]:
            algebra.end_to_end(chk, F, ty, name, "lift", lambda ctx, name=name: real_fn(name, X))
        algebra.end_to_end(chk, F, ty, "log", "lift", lambda ctx: real_fn("log", X, BASE))
        check_sin_cos(chk, F, ty)
        check_atan2(chk, F, ty)
        check_signed(chk, F, ty)
    # base case of the induction over nesting: the plain-float instances return what the standard library returns
    from . import c06
    c06.float_instances(chk, F)
    # the closed forms combine values of the INNER number type with float constants (`x - 1`, `x / 2`, `x -= 1`): for nested types these are
    # the dual-with-float operator forms of the inner type — every generated form is the operation with the float lifted to a constant
    from . import c08
    for ty in TYPES:
        c08.check_type(chk, F, ty, thorough=False)
    # the Python classes expose the elementary functions under numpy spellings: each forwards to the Rust item of the same meaning
    from . import c17
    c17.python_wrappers(chk, set(UNARY) | {"tan", "tanh", "log"})
    chk.floor("chain rule bodies", chk.analysed.get("chain rule bodies", 0), 8)
    chk.floor("closed-form bodies", chk.analysed.get("closed-form bodies", 0), 8 * 24)
    chk.floor("derivative links", chk.analysed.get("derivative links", 0), 384)
    return chk.finish()


def check_sin_cos(chk, F, ty):
    imp = algebra.dualnum_impl(F, ty)
    body = F.impl_item(imp, "sin_cos") if imp else None
    if body is None:
        chk.undecide("lift|%s|sin_cos" % ty, "missing anchor")
        return
    for pa in presence_patterns(ty):
        sp = Spec(ty, absent_set("self", pa))
        key = "lift|%s|sin_cos|presence=%s" % (ty, pres_tag(pa))
        try:
            it = Interp(F, DOMK)
            r = unref(it.call_body(body, [sp.operand("self", pa)]))
            if not isinstance(r, Tup) or len(r.vs) != 2:
                chk.ob(key, False, "sin_cos returns (sin, cos)", body_loc(F, body), found=repr(r)[:200])
                continue
            compare_parts(chk, key + "|sin", "first component is the lifting of sin", body_loc(F, body), sp, r.vs[0],
                          sp.spec_of_real(apply_fn("sin", X)))
            compare_parts(chk, key + "|cos", "second component is the lifting of cos", body_loc(F, body), sp, r.vs[1],
                          sp.spec_of_real(apply_fn("cos", X)))
        except Unsupported as ex:
            chk.undecide(key, "unsupported: %s" % ex, body_loc(F, body))


def check_atan2(chk, F, ty, trait_body=None, names=("self", "other"), tag="lift"):
    """atan2(y, x): real part y.re.atan2(x.re); derivative parts those of a function with gradient (x,-y)/(x^2+y^2).
    Accepted donors (their gradients are derived by the checker's own differentiation): atan(y/x) and -atan(x/y)."""
    Y, XX = Poly.var("%s.re" % names[0]), Poly.var("%s.re" % names[1])
    donors = [apply_fn("atan", Y * XX.recip()), -apply_fn("atan", XX * Y.recip())]
    if trait_body is None:
        imp = algebra.dualnum_impl(F, ty)
        body = F.impl_item(imp, "atan2") if imp else None
    else:
        body = trait_body
    if body is None:
        chk.undecide("%s|%s|atan2" % (tag, ty), "missing anchor")
        return
    pats = presence_patterns(ty)
    for pa in pats:
        for pb in pats:
            sp = Spec(ty, absent_set(names[0], pa) | absent_set(names[1], pb))
            key0 = "%s|%s|atan2|presence=%s%s" % (tag, ty, pres_tag(pa), pres_tag(pb))
            try:
                paths = run_paths(F, body, lambda: [sp.operand(names[0], pa), sp.operand(names[1], pb)])
            except Unsupported as ex:
                chk.undecide(key0, "unsupported: %s" % ex, body_loc(F, body))
                continue
            for ctx, val, it, args in paths:
                key = key0 if len(paths) == 1 else key0 + "|path=" + "".join("T" if b else "F" for (_, _, b, f) in ctx.trace if not f)
                guards_ok = all(guard_on_re_only(k) for (k, d, b, f) in ctx.trace)
                if not guards_ok:
                    chk.ob(key + "|guards", False, "guards depend on real parts only", body_loc(F, body), found=path_descr(ctx))
                wants = []
                for dn in donors:
                    w = sp.spec_of_real(dn)
                    w["re"] = DOMK.fn2("atan2", Y, XX)
                    wants.append(w)
                v = unref(val)
                best = None
                for w in wants:
                    try:
                        if isinstance(v, Rec) and v.adt == ty and all(equal(value_part_poly(v, f), w[f]) for f, _ in sp.parts()):
                            best = w
                            break
                    except Unsupported:
                        pass
                compare_parts(chk, key, "atan2: real part self.re.atan2(other.re), derivative parts of atan(y/x) (equivalently -atan(x/y))",
                              body_loc(F, body), sp, val, best or wants[0])


def check_signed(chk, F, ty, zero_paths=True):
    """abs / signum / abs_sub: guard on the real part's sign, arms +self / -self, constants, self-other / zero"""
    imps = F.impls_of("Signed", ty)
    if len(imps) != 1:
        chk.undecide("signed|%s" % ty, "missing anchor: impl Signed for %s" % ty)
        return
    imp = imps[0]
    chk.count("Signed impls")
    sp0 = Spec(ty)
    allp = presence_patterns(ty)
    for name in ("abs", "signum"):
        body = F.impl_item(imp, name)
        if body is None:
            chk.undecide("signed|%s|%s" % (ty, name), "missing anchor")
            continue
        for pa in allp:
            sp = Spec(ty, absent_set("self", pa))
            key0 = "signed|%s|%s|presence=%s" % (ty, name, pres_tag(pa))
            try:
                paths = run_paths(F, body, lambda: [sp.operand("self", pa)])
            except Unsupported as ex:
                chk.undecide(key0, "unsupported: %s" % ex, body_loc(F, body))
                continue
            for ctx, val, it, args in paths:
                sign = sign_of_path(ctx)
                guards_ok = all(guard_on_re_only(k) for (k, d, b, f) in ctx.trace)
                chk.ob(key0 + "|guards|" + path_descr(ctx), guards_ok, "guards depend on the real part only",
                       body_loc(F, body), found=path_descr(ctx), nontrivial=False)
                if sign is None:
                    chk.ob(key0 + "|path=" + path_descr(ctx), False, "guards of %s are sign predicates of self.re" % name,
                           body_loc(F, body), found=path_descr(ctx))
                    continue
                if name == "abs":
                    # for re == 0 either sign is fine for the real part; derivative parts follow the arm taken
                    base = X if sign > 0 else (-X if sign < 0 else None)
                    if base is None and not zero_paths:
                        # (a dependent property that decides the zero real part on its own bodies does not constrain abs there)
                        continue
                    if base is None:
                        # zero: accept +self or -self
                        w1 = sp.spec_of_real(X)
                        w2 = sp.spec_of_real(-X)
                        ok = all(equal(value_part_poly(unref(val), f), w1[f]) for f, _ in sp.parts()) or \
                            all(equal(value_part_poly(unref(val), f), w2[f]) for f, _ in sp.parts())
                        chk.ob(key0 + "|path=" + path_descr(ctx), ok, "abs at re == 0 returns +self or -self",
                               body_loc(F, body), found=repr(unref(val))[:200])
                        continue
                else:
                    base = Poly.const(1 if sign > 0 else (-1 if sign < 0 else 0))
                compare_parts(chk, key0 + "|path=" + path_descr(ctx), "%s == lifting of its real function on this arm" % name,
                              body_loc(F, body), sp, val, sp.spec_of_real(base))
    body = F.impl_item(imp, "abs_sub")
    if body is not None:
        for pa in allp:
            for pb in allp:
                sp = Spec(ty, absent_set("self", pa) | absent_set("other", pb))
                key0 = "signed|%s|abs_sub|presence=%s%s" % (ty, pres_tag(pa), pres_tag(pb))
                try:
                    paths = run_paths(F, body, lambda: [sp.operand("self", pa), sp.operand("other", pb)])
                except Unsupported as ex:
                    chk.undecide(key0, "unsupported: %s" % ex, body_loc(F, body))
                    continue
                for ctx, val, it, args in paths:
                    tr = ctx.trace
                    if len(tr) != 1 or tr[0][0][0] != "cmp":
                        chk.ob(key0 + "|guard", False, "abs_sub has one comparison of real parts", body_loc(F, body),
                               found=path_descr(ctx))
                        continue
                    k, d, b, f = tr[0]
                    # key: ("cmp", op, keyA, keyB): positive difference <=> self.re > other.re
                    A, B = Poly.var("self.re"), Poly.var("other.re")
                    # the comparison is made on the innermost floats re(self.re), re(other.re) (DualNum::re) or on the parts themselves
                    forms = [(A, B), (apply_fn("re", A), apply_fn("re", B))]
                    gt = None
                    for (a_, b_) in forms:
                        if k[1] == "<=" and k[2] == a_.key() and k[3] == b_.key():
                            gt = not b
                        elif k[1] == "<" and k[2] == b_.key() and k[3] == a_.key():
                            gt = b
                    if gt is None:
                        chk.ob(key0 + "|guard", False, "abs_sub compares self.re with other.re", body_loc(F, body), found=d)
                        continue
                    base = (A - B) if gt else Poly.const(0)
                    compare_parts(chk, key0 + "|" + ("gt" if gt else "le"), "abs_sub is (self - other) or zero",
                                  body_loc(F, body), sp, val, sp.spec_of_real(base))
    for name, want in (("is_positive", "is_positive"), ("is_negative", "is_negative")):
        body = F.impl_item(imp, name)
        if body is None:
            chk.undecide("signed|%s|%s" % (ty, name), "missing anchor")
            continue
        from .c06 import single_pred_forward
        try:
            single_pred_forward(chk, F, "signed|%s|%s" % (ty, name), body, sp0, want, operand="self")
        except Unsupported as ex:
            chk.undecide("signed|%s|%s" % (ty, name), "unsupported: %s" % ex, body_loc(F, body))


def guard_on_re_only(key):
    """a guard key mentions operand real parts / scalar parameters only"""
    polys = []
    from .common import _poly_from_key_cache
    for k in key[1:]:
        p = _poly_from_key_cache.get(k)
        if p is not None:
            polys.append(p)
    for p in polys:
        for a in p.atoms_deep():
            if a[0] == "v" and "." in a[1] and not a[1].endswith(".re"):
                return False
    return True


def sign_of_path(ctx):
    """+1 / -1 / 0 sign of self.re implied by the path's guards, None when not a sign predicate path"""
    pos = neg = zero = None
    xk = X.key()
    for k, d, b, f in ctx.trace:
        if k[0] == "pred" and k[2] == xk:
            if k[1] in ("is_positive",):
                pos = b
            elif k[1] in ("is_negative",):
                neg = b
            elif k[1] == "is_zero":
                zero = b
            else:
                return None
        else:
            return None
    if pos:
        return 1
    if neg:
        return -1
    if zero:
        return 0
    if pos is False and zero is False:
        return -1
    if neg is False and zero is False:
        return 1
    if pos is False and zero is None and neg is None:
        # not positive: negative or zero — both map to the `-self` / non-positive arm
        return -1
    if neg is False and pos is None:
        return 1
    return None
