"""C12 — linear algebra over dual numbers (NARROW claim: singular-pivot guard, real-part control, pairing rules)."""
from .. import facts
from ..report import Check
from .. import walk
from ..hirpp import expr_s
from .common import *
from .c13 import is_for, for_parts, local_id


def called_traits(F, prefix="linalg::"):
    """last path segments of the traits whose items the bodies under `prefix` call (resolved callees)"""
    from .. import walk
    out = set()
    for b in F.bodies.values():
        if not b["path"].startswith(prefix):
            continue
        for e in walk.walk_body(b):
            c = walk.callee_of(e)
            if c and c.get("trait"):
                t = c["trait"].split("::")[-1]
                out.add(t)
                if t == "Iterator" and c.get("name") in ("sum", "product"):
                    out.add("Sum" if c["name"] == "sum" else "Product")      # Iterator::sum is S::sum of the element type
    return out


def run(tier):
    chk = Check("C12", tier, "other",
                "NARROW claim (linalg configuration), decided on the interpreted paths and element updates of the routines (loop nests and "
                "iterator pipelines evaluated once for symbolic indices, store-to-load forwarding, per-element composition with canonical sums). "
                "(1) singular-pivot guard: some path of LU::new reports an error, every path that divides by the pivot has excluded a zero pivot "
                "magnitude, the tested magnitude is |a[m,i]| for the row m searched over i..n and that element is the pivot divided by; LU values "
                "can only be built by LU::new; (2) branch conditions are computed from real parts, counters and sizes, or through the scalar's own "
                "comparison items; (3) pairing per path: row exchange, permutation exchange and parity counter move together, the determinant is "
                "the product of the pivots negated exactly for odd parity, the eigenvalue sort is ascending and exchanges eigenvector columns with "
                "their eigenvalues; (4) formula level: the element values produced per iteration by LU::new / solve / inverse and by the Jacobi "
                "sweep are those of the textbook schemes (Doolittle elimination with whole-row pivoting, forward/back substitution on the permuted "
                "right-hand side, rotation g' = g - s(h + g tau), h' = h + s(g - h tau) with t, c, s, tau as in Numerical Recipes) over the textbook "
                "index ranges; Jacobi control: early exit only on the whole strict upper triangle, rotation only with a_pq != 0, annihilation without "
                "rotation only after testing both diagonal elements; (5) the field-trait methods nalgebra's decompositions call and the element "
                "operations (+ - * /, compound assignment, absent parts) are the verified dual operations. NOT decided (out of reach of "
                "a static argument here): the defining identities A x = b, A A^-1 = I, A V = V diag(lambda), Jacobi's formula, "
                "Hellmann-Feynman, convergence of the Jacobi sweeps, conditioning-scaled tolerances, nalgebra's own decompositions.",
                assumptions=["loop invariants of the numerical algorithms are not established"],
                trusted_base=["rustc type checker and name resolution", "ndv-export", "ndvlib/interp.py", "ndvlib/rules/c12_loops.py (loop engine)"])
    F = facts.load("linalg")
    fns = {b["path"]: b for b in F.bodies.values() if b["path"].startswith("linalg::")}
    new = [b for p, b in fns.items() if p.endswith("LU::<T, F>::new")]
    if len(new) != 1:
        chk.undecide("lu|new", "missing anchor: LU::new")
    constructors(chk, F, fns)
    guards_real(chk, F, fns)
    scalar_operand(chk, F)
    field_traits(chk, F)
    # the element operations the routines perform on their entries (+ - * / in owned/borrowed forms, compound assignment as in
    # `zw[p] -= h`, negation) are the operations of the truncated algebra, also when a derivative part is absent
    from . import container, c08
    container.check_L1(chk, F)
    for ty in TYPES:
        # (plus the forms of every other trait linalg.rs calls on its entries: a substitution loop written
        # `(..).map(|k| a[(i,k)] * x[k]).sum()` depends on `Sum`)
        c08.check_type(chk, F, ty, thorough=False, dual_only=True, also=called_traits(F))
    from . import c12_loops
    c12_loops.run_loops(chk, F)
    chk.floor("loop-body update statements checked", chk.analysed.get("loop-body update statements checked", 0), 30)
    chk.floor("linalg bodies", len(fns), 7)
    return chk.finish()


def peel(e):
    while e["k"] in ("addr", "cast") or (e["k"] == "un" and e["op"] == "deref") or \
            (e["k"] == "block" and not e["b"]["stmts"] and e["b"].get("tail")):
        e = e["a"] if e["k"] != "block" else e["b"]["tail"]
    return e


def index_pair(e):
    """(row local id, col local id) of an expression  X[(r, c)]"""
    e = peel(e)
    if e["k"] != "index":
        return None
    idx = peel(e["b"])
    if idx["k"] != "tup" or len(idx["es"]) != 2:
        return None
    return (local_id(idx["es"][0]), local_id(idx["es"][1]), root_name(e["a"]))


def root_name(e):
    e = peel(e)
    while e["k"] == "field":
        n = e["name"]
        e = peel(e["a"])
        if e["k"] == "path" and e["res"].get("name") == "self":
            return "self." + n
    if e["k"] == "path" and e["res"].get("r") == "local":
        return e["res"]["name"]
    return None


def stmts_of(block_expr):
    b = block_expr["b"] if block_expr["k"] == "block" else block_expr
    out = [(st, st["e"] if st["s"] in ("expr", "semi") else st.get("init")) for st in b["stmts"]]
    if b.get("tail"):
        out.append(({"s": "tail"}, b["tail"]))
    return out


def resolve_local(scope, e):
    """follow a local variable to the initialiser of its `let` inside scope"""
    e = peel(e)
    lid = local_id(e)
    if lid is None:
        return e
    for n in walk.walk(scope):
        if n.get("k") == "block":
            for st in n["b"]["stmts"]:
                if st["s"] == "let" and st["pat"].get("id") == lid and st.get("init"):
                    return peel(st["init"])
    return None


def constructors(chk, F, fns):
    sites = []
    for p, b in fns.items():
        for n in walk.walk_body(b):
            if n.get("k") == "struct" and F.adt_name(n["t"]) == "LU":
                sites.append(p)
    adt = F.adts.get("LU")
    private = adt is not None and all(not f["vis"].startswith("Public") for f in adt["fields"])
    ok = private and sites and all(p.endswith("LU::<T, F>::new") for p in sites)
    chk.ob("lu|typestate", ok, "an LU value can only be produced by LU::new (private fields, single construction site), so solve / inverse / "
           "determinant only ever divide by pivots that passed the guard", "src/linalg.rs", found="construction sites: %s; fields private: %s" % (sites, private),
           required="only LU::new")


def guards_real(chk, F, fns):
    """every condition in linalg.rs is decided by F-typed / integer values, or by the real-part based items of the scalar type"""
    n_guards = 0
    bad = []
    notes = []
    for p, b in fns.items():
        if "::tests::" in p or "fmt" in p:
            continue
        for n in walk.walk_body(b):
            conds = []
            if n.get("k") == "if" and n["c"]["k"] != "let":
                conds.append(n["c"])
            for c in conds:
                n_guards += 1
                for x in walk.walk(c):
                    if x.get("k") == "bin" and x["op"] in ("<", "<=", ">", ">=", "==", "!="):
                        for side in (x["a"], x["b"]):
                            t = F.peel(side["t"])
                            if t["k"] == "param" and t["n"] == "T":
                                if x["op"] in ("==", "!="):
                                    notes.append("%s: `%s` compares dual values with PartialEq (real part only for the field-compatible types; "
                                                 "types deriving PartialEq also compare derivative parts)" % (F.loc(x["l"]), expr_s(x)[:60]))
                                else:
                                    notes.append("%s: ordering of dual values (PartialOrd forwards to the real part, C06)" % F.loc(x["l"]))
                            elif t["k"] not in ("param", "prim"):
                                bad.append("%s: comparison of %s" % (F.loc(x["l"]), t.get("s")))
    for s in notes[:6]:
        chk.note(s)
    chk.ob("guards|real", not bad, "branch conditions are computed from real parts (F), counters and sizes, or through the scalar's own "
           "comparison items", "src/linalg.rs", found="; ".join(bad[:4]) or "%d guards (%d on dual values through PartialEq/PartialOrd, see notes)" % (n_guards, len(notes)),
           nontrivial=False)
    chk.count("guards in linalg.rs", n_guards)


def scalar_operand(chk, F):
    have = set()
    for imp in F.impls.values():
        if (imp.get("trait") or "").endswith("ScalarOperand"):
            have.add(F.adt_name(imp["self"]))
    missing = sorted(set(TYPES) - have)
    chk.ob("scalar-operand", not missing, "ndarray's ScalarOperand is implemented for all 8 number types", "src/linalg.rs", found=sorted(have),
           required=sorted(TYPES), nontrivial=False)


def field_traits(chk, F):
    """the field-trait implementations that let nalgebra's generic decompositions run over dual numbers forward to the verified
    dual operations (scale/unscale = multiplication/division by a DUAL factor, abs, sqrt, recip, ...): rule set of C11, reused"""
    from . import c11
    for ty in c11.FIELD4:
        c11.complex_field(chk, F, ty, thorough=False, branches=False)
        c11.real_field(chk, F, ty)
