"""C12 — linear algebra over dual numbers (NARROW claim: singular-pivot guard, real-part control, pairing rules)."""
from .. import facts
from ..report import Check
from .. import walk
from ..hirpp import expr_s
from .common import *
from .c13 import is_for, for_parts, local_id


def run(tier):
    chk = Check("C12", tier, "other",
                "NARROW claim (linalg configuration). (1) singular-pivot guard: in LU::new the test `max_a.is_zero() -> Err` tree-dominates "
                "every division by the pivot a[(i,i)] of the same outer iteration, max_a is the running maximum of |a[(k,i)]|.re() over the "
                "remaining rows k in i..n, and LU values can only be built by LU::new (so solve/inverse/determinant never see an unguarded "
                "pivot); (2) every branch condition in linalg.rs is computed from real parts (F-typed), counters and sizes, or through the "
                "real-part based Signed / PartialOrd items of the scalar; (3) pairing: row swap, permutation swap and the parity counter are "
                "updated in the same guarded block, the determinant is negated exactly for odd parity, the eigenvalue sort swaps the "
                "eigenvector column together with the eigenvalue, ScalarOperand is implemented for all 8 types; (4) formula level: every "
                "loop body of LU::new / solve / inverse and of the Jacobi sweep is evaluated once for symbolic indices and its update statements "
                "are exactly those of the textbook schemes (Doolittle elimination, forward/back substitution on the permuted right-hand side, "
                "Jacobi rotation g' = g - s(h + g tau), h' = h + s(g - h tau) with t, c, s, tau as in Numerical Recipes) over the textbook index "
                "ranges; (5) the field-trait methods nalgebra's decompositions call forward to the verified dual operations. NOT decided (out of reach of "
                "a static argument here): the defining identities A x = b, A A^-1 = I, A V = V diag(lambda), Jacobi's formula, "
                "Hellmann-Feynman, convergence of the Jacobi sweeps, conditioning-scaled tolerances, nalgebra's own decompositions.",
                assumptions=["loop invariants of the numerical algorithms are not established"],
                trusted_base=["rustc type checker and name resolution", "ndv-export", "structural walkers in c12.py"])
    F = facts.load("linalg")
    fns = {b["path"]: b for b in F.bodies.values() if b["path"].startswith("linalg::")}
    new = [b for p, b in fns.items() if p.endswith("LU::<T, F>::new")]
    if len(new) != 1:
        chk.undecide("lu|new", "missing anchor: LU::new")
    else:
        lu_new(chk, F, new[0])
    constructors(chk, F, fns)
    guards_real(chk, F, fns)
    scalar_operand(chk, F)
    field_traits(chk, F)
    # the element operations the routines perform on their entries (+ - * / in owned/borrowed forms, compound assignment as in
    # `zw[p] -= h`, negation) are the operations of the truncated algebra, also when a derivative part is absent
    from . import container, c08
    container.check_L1(chk, F)
    for ty in TYPES:
        c08.check_type(chk, F, ty, thorough=False, dual_only=True)
    from . import c12_loops
    c12_loops.run_loops(chk, F)
    chk.floor("loop-body update statements checked", chk.analysed.get("loop-body update statements checked", 0), 30)
    chk.floor("linalg bodies", len(fns), 7)
    return chk.finish()


def peel(e):
    while e["k"] in ("addr", "cast") or (e["k"] == "un" and e["op"] == "deref") or \
            (e["k"] == "block" and not e["b"]["stmts"] and e["b"].get("tail")):
        e = e["a"] if e["k"] != "block" else e["b"]["tail"]
    return e


def index_pair(e):
    """(row local id, col local id) of an expression  X[(r, c)]"""
    e = peel(e)
    if e["k"] != "index":
        return None
    idx = peel(e["b"])
    if idx["k"] != "tup" or len(idx["es"]) != 2:
        return None
    return (local_id(idx["es"][0]), local_id(idx["es"][1]), root_name(e["a"]))


def root_name(e):
    e = peel(e)
    while e["k"] == "field":
        n = e["name"]
        e = peel(e["a"])
        if e["k"] == "path" and e["res"].get("name") == "self":
            return "self." + n
    if e["k"] == "path" and e["res"].get("r") == "local":
        return e["res"]["name"]
    return None


def stmts_of(block_expr):
    b = block_expr["b"] if block_expr["k"] == "block" else block_expr
    out = [(st, st["e"] if st["s"] in ("expr", "semi") else st.get("init")) for st in b["stmts"]]
    if b.get("tail"):
        out.append(({"s": "tail"}, b["tail"]))
    return out


def lu_new(chk, F, body):
    loc = body_loc(F, body)
    # the outer pivot loop: a for loop whose body holds `if M.is_zero() { return Err(..) }` as a direct statement
    found = None
    for n in walk.walk_body(body):
        if not is_for(n):
            continue
        fp = for_parts(n)
        if fp is None:
            continue
        ivar, end, start, lbody = fp
        if lbody["k"] != "block":
            continue
        for pos, (st, e) in enumerate(stmts_of(lbody)):
            if e is None or e["k"] != "if" or e.get("else") is not None:
                continue
            c = peel(e["c"])
            if c["k"] == "mcall" and c["m"] == "is_zero" and local_id(c["recv"]) is not None:
                then_nodes = list(walk.walk(e["then"]))
                rets = [x for x in then_nodes if x.get("k") == "ret"]
                errs = [x for x in then_nodes if x.get("k") == "call" and (walk.callee_of(x) or {}).get("path", "").endswith("::Err")]
                if rets and errs:
                    found = (n, ivar, start, end, lbody, pos, local_id(c["recv"]), c)
    if found is None:
        chk.ob("lu|guard|present", False, "LU::new reports a zero pivot column as an error before eliminating", loc,
               found="no `if max.is_zero() { return Err(..) }` directly inside the pivot loop", required="guard statement in the outer loop")
        return
    loop, ivar, start, end, lbody, gpos, mvar, cond = found
    chk.ob("lu|guard|present", True, "LU::new reports a zero pivot column as an error before eliminating", loc, found=expr_s(cond)[:80],
           nontrivial=False)
    sts = stmts_of(lbody)
    # (1a) every division by the pivot a[(i,i)] sits after the guard in the same loop body
    divs_ok = True
    n_div = 0
    bad = []
    for pos, (st, e) in enumerate(sts):
        if e is None:
            continue
        for x in walk.walk(e):
            if x.get("k") == "bin" and x["op"] == "/":
                ip = index_pair(x["b"])
                if ip and ip[0] == ivar and ip[1] == ivar:
                    n_div += 1
                    if pos <= gpos:
                        divs_ok = False
                        bad.append("division %s before the guard" % expr_s(x)[:60])
    # divisions by a pivot anywhere else in the body (outside this loop) are unguarded
    inside = set(id(x) for x in walk.walk(loop))
    for x in walk.walk_body(body):
        if x.get("k") == "bin" and x["op"] == "/" and id(x) not in inside:
            ip = index_pair(x["b"])
            if ip and ip[0] == ip[1] and ip[0] is not None:
                divs_ok = False
                bad.append("division by a diagonal element outside the guarded loop: %s" % expr_s(x)[:60])
    chk.ob("lu|guard|dominates", divs_ok and n_div >= 1,
           "the singularity guard tree-dominates every division by the pivot a[(i,i)] of the same outer iteration", loc,
           found="; ".join(bad) or "%d pivot division(s), all after the guard" % n_div, required="guard precedes every pivot division")
    # (1b) max_a is the running maximum of |a[(k,i)]|.re() over k in i..n
    init_ok = False
    scan_ok = False
    imax_var = None
    detail = []
    for pos, (st, e) in enumerate(sts[:gpos]):
        if st.get("s") == "let" and st["pat"].get("id") == mvar:
            init = st.get("init")
            init_ok = init is not None and init["k"] == "call" and (walk.callee_of(init) or {}).get("name") == "zero"
        if e is not None and is_for(e):
            fp = for_parts(e)
            if fp is None:
                continue
            kvar, kend, kstart, kbody = fp
            if local_id(kstart) != ivar or expr_s(kend) != expr_s(end):
                detail.append("pivot search does not run over i..n")
                continue
            # inside: if X.re() > M { M = X.re(); .. }  with X = a[(k, i)].abs()
            for x in walk.walk(kbody):
                if x.get("k") == "if":
                    c = peel(x["c"])
                    if c["k"] == "bin" and c["op"] in (">", ">=") and local_id(c["b"]) == mvar:
                        lhs = peel(c["a"])
                        assigns = [y for y in walk.walk(x["then"]) if y.get("k") == "assign" and local_id(y["a"]) == mvar]
                        if len(assigns) == 1 and expr_s(peel(assigns[0]["b"])) == expr_s(lhs) and lhs["k"] == "mcall" and lhs["m"] == "re":
                            src = resolve_local(kbody, lhs["recv"])
                            if src is not None and src["k"] == "mcall" and src["m"] == "abs":
                                ip = index_pair(src["recv"])
                                # the pivot row is recorded together with the maximum: `imax = k`
                                argmax = [y for y in walk.walk(x["then"]) if y.get("k") == "assign" and local_id(y["a"]) not in (None, mvar)
                                          and local_id(y["b"]) == kvar]
                                if ip and ip[0] == kvar and ip[1] == ivar and len(argmax) == 1:
                                    scan_ok = True
                                    imax_var = local_id(argmax[0]["a"])
                                elif ip and ip[0] == kvar and ip[1] == ivar:
                                    detail.append("the row of the maximum is not recorded (`imax = k`)")
                                else:
                                    detail.append("pivot search reads %s" % expr_s(src)[:60])
    other_assign = [y for y in walk.walk(lbody) if y.get("k") in ("assign", "assignop") and local_id(y["a"]) == mvar]
    chk.ob("lu|guard|max", init_ok and scan_ok and len(other_assign) == 1,
           "the guarded quantity is the maximum of |a[(k,i)]|.re() over the remaining rows k in i..n (initialised to zero)", loc,
           found="init zero: %s, scan: %s, assignments: %d %s" % (init_ok, scan_ok, len(other_assign), "; ".join(detail)),
           required="let mut max = 0; for k in i..n { if |a[(k,i)]|.re() > max { max = ... } }")


def resolve_local(scope, e):
    """follow a local variable to the initialiser of its `let` inside scope"""
    e = peel(e)
    lid = local_id(e)
    if lid is None:
        return e
    for n in walk.walk(scope):
        if n.get("k") == "block":
            for st in n["b"]["stmts"]:
                if st["s"] == "let" and st["pat"].get("id") == lid and st.get("init"):
                    return peel(st["init"])
    return None


def constructors(chk, F, fns):
    sites = []
    for p, b in fns.items():
        for n in walk.walk_body(b):
            if n.get("k") == "struct" and F.adt_name(n["t"]) == "LU":
                sites.append(p)
    adt = F.adts.get("LU")
    private = adt is not None and all(not f["vis"].startswith("Public") for f in adt["fields"])
    ok = private and sites and all(p.endswith("LU::<T, F>::new") for p in sites)
    chk.ob("lu|typestate", ok, "an LU value can only be produced by LU::new (private fields, single construction site), so solve / inverse / "
           "determinant only ever divide by pivots that passed the guard", "src/linalg.rs", found="construction sites: %s; fields private: %s" % (sites, private),
           required="only LU::new")


def guards_real(chk, F, fns):
    """every condition in linalg.rs is decided by F-typed / integer values, or by the real-part based items of the scalar type"""
    n_guards = 0
    bad = []
    notes = []
    for p, b in fns.items():
        if "::tests::" in p or "fmt" in p:
            continue
        for n in walk.walk_body(b):
            conds = []
            if n.get("k") == "if" and n["c"]["k"] != "let":
                conds.append(n["c"])
            for c in conds:
                n_guards += 1
                for x in walk.walk(c):
                    if x.get("k") == "bin" and x["op"] in ("<", "<=", ">", ">=", "==", "!="):
                        for side in (x["a"], x["b"]):
                            t = F.peel(side["t"])
                            if t["k"] == "param" and t["n"] == "T":
                                if x["op"] in ("==", "!="):
                                    notes.append("%s: `%s` compares dual values with PartialEq (real part only for the field-compatible types; "
                                                 "types deriving PartialEq also compare derivative parts)" % (F.loc(x["l"]), expr_s(x)[:60]))
                                else:
                                    notes.append("%s: ordering of dual values (PartialOrd forwards to the real part, C06)" % F.loc(x["l"]))
                            elif t["k"] not in ("param", "prim"):
                                bad.append("%s: comparison of %s" % (F.loc(x["l"]), t.get("s")))
    for s in notes[:6]:
        chk.note(s)
    chk.ob("guards|real", not bad, "branch conditions are computed from real parts (F), counters and sizes, or through the scalar's own "
           "comparison items", "src/linalg.rs", found="; ".join(bad[:4]) or "%d guards (%d on dual values through PartialEq/PartialOrd, see notes)" % (n_guards, len(notes)),
           nontrivial=False)
    chk.count("guards in linalg.rs", n_guards)


def scalar_operand(chk, F):
    have = set()
    for imp in F.impls.values():
        if (imp.get("trait") or "").endswith("ScalarOperand"):
            have.add(F.adt_name(imp["self"]))
    missing = sorted(set(TYPES) - have)
    chk.ob("scalar-operand", not missing, "ndarray's ScalarOperand is implemented for all 8 number types", "src/linalg.rs", found=sorted(have),
           required=sorted(TYPES), nontrivial=False)


def field_traits(chk, F):
    """the field-trait implementations that let nalgebra's generic decompositions run over dual numbers forward to the verified
    dual operations (scale/unscale = multiplication/division by a DUAL factor, abs, sqrt, recip, ...): rule set of C11, reused"""
    from . import c11
    for ty in c11.FIELD4:
        c11.complex_field(chk, F, ty, thorough=False, branches=False)
        c11.real_field(chk, F, ty)
