"""Shared helpers for the rule sets."""
from fractions import Fraction as Fr

from ..interp import (Interp, DomA, explore, PathCtx, Sc, Rec, Opt, Tup, Mat, PHANTOM, Unsupported, PanicEx, unref,
                      BoolV)
from ..poly import Poly, E, equal, diff, apply_fn, is_zero, numerically_equal
from ..spec import (GRADINGS, TYPES, ORDER, Spec, presence_patterns, absent_set, value_part_poly,
                    check_grading_against_adts)
from .. import hirpp

DOM = DomA()
EPS_VALUE = Fr(1, 2 ** 52)


def refref_binop(F, ty, trait):
    """the hand-written / macro-generated  impl Trait<&X> for &X  item"""
    for imp in F.impls_of(trait, ty):
        st = F.ty(imp["self"])
        ta = imp.get("trait_args", [])
        if st["k"] == "ref" and len(ta) > 1 and F.ty(ta[1])["k"] == "ref":
            return F.impl_item(imp, trait.lower())
    return None


def ref_unop(F, ty, trait):
    for imp in F.impls_of(trait, ty):
        st = F.ty(imp["self"])
        if st["k"] == "ref":
            return F.impl_item(imp, trait.lower())
    return None


def pres_tag(p):
    if p is None:
        return "-"
    return "".join("S" if v else "N" for v in p.values())


def eval_poly(p, env):
    """numeric value of a Poly under env: atom -> Fraction; None when an atom is unknown"""
    total = Fr(0)
    for m, c in p.t.items():
        term = Fr(c)
        for a, e in m:
            v = eval_atom(a, env)
            if v is None:
                return None
            ex = e[0]
            if e[1] != 0:
                n = env.get(("c", "n"))
                if n is None:
                    return None
                ex = ex + e[1] * n
            if ex.denominator != 1:
                return None
            if v == 0 and ex < 0:
                return None
            term *= v ** int(ex)
        total += term
    return total


# exact values of the float constants that may appear in guards (f64 instantiation)
CONST_ENV = {("c", "F::MIN_POSITIVE"): Fr(1, 2 ** 1022), ("c", "EPS_f64"): Fr(1, 2 ** 52), ("c", "EPS_f32"): Fr(1, 2 ** 23),
             ("c", "F::MAX"): Fr(2) ** 1024 - Fr(2) ** 971, ("c", "F::MIN"): -(Fr(2) ** 1024 - Fr(2) ** 971)}


def eval_atom(a, env):
    if a in env:
        return env[a]
    if a[0] == "f" and a[1] == "abs":
        v = eval_poly(a[2], env)
        return None if v is None else abs(v)
    if a[0] == "f" and a[1] == "re":
        # projection of the inner number type to its real part: the identity for the sampled (float) instantiation
        return eval_poly(a[2], env)
    if a[0] == "u":
        return eval_poly(a[1], env)
    return None


def sample_oracle(env):
    """oracle answering guards whose operands evaluate numerically under `env` (used to steer the symbolic
    exponent through the special-case arms; guards on operand real parts stay free)"""
    def oracle(key, descr, ctx):
        kind = key[0]
        if kind == "pred":
            p = _poly_from_key_cache.get(key[2])
            if p is None:
                return None
            v = eval_poly(p, env)
            if v is None:
                return None
            return {"is_zero": v == 0, "is_one": v == 1, "is_positive": v > 0, "is_negative": v < 0,
                    "is_sign_positive": v >= 0, "is_sign_negative": v < 0}.get(key[1])
        if kind == "cmp":
            pa = _poly_from_key_cache.get(key[2])
            pb = _poly_from_key_cache.get(key[3])
            if pa is None or pb is None:
                return None
            va, vb = eval_poly(pa, env), eval_poly(pb, env)
            if va is None or vb is None:
                return None
            return {"==": va == vb, "<": va < vb, "<=": va <= vb}[key[1]]
        return None
    return oracle


_poly_from_key_cache = {}


class DomAK(DomA):
    """DomA that remembers Poly by key so that oracles can evaluate guards"""

    def key(self, a):
        k = a.key()
        _poly_from_key_cache[k] = a
        return k


DOMK = DomAK()


def run_paths(F, body, args_fn, hooks=None, oracle=None):
    """explore all decision-tree paths of one body; args_fn() builds fresh argument values per path.
    returns list of (ctx, value, interp, args)"""
    out = []

    def thunk(ctx):
        it = Interp(F, DOMK, ctx=ctx, hooks=hooks)
        args = args_fn()
        v = it.call_body(body, args)
        thunk.last = (it, args)
        return v

    for ctx, val in explore(thunk, oracle):
        it, args = thunk.last
        out.append((ctx, val, it, args))
    return out


def all_paths(F, body, args_fn, hooks=None, oracle=None, extern=None):
    """[(suffix, value, args)] for every decision-tree path of body"""
    rows = []

    def thunk(ctx):
        it = Interp(F, DOMK, ctx=ctx, hooks=hooks, extern=extern)
        args = args_fn()
        v = None
        try:
            v = it.call_body(body, args)
            return v
        finally:
            rows.append([ctx, v, args])
    res = explore(thunk, oracle)
    for row, (ctx, val) in zip(rows, res):
        row[1] = val       # a panic is reported as the path's value
    out = []
    for ctx, v, args in rows:
        sfx = "" if len(rows) == 1 else "|path=" + path_descr(ctx)
        out.append((sfx, v, args))
    return out


def path_descr(ctx):
    return " & ".join(("%s" if b else "not(%s)") % d for (_, d, b, forced) in ctx.trace) or "true"


def compare_parts(chk, keyprefix, rule, loc, sp, result, want, nontrivial_fields=None):
    """one obligation per part: canonical(result.part) == want[part]"""
    ok_all = True
    result = unref(result)
    if not isinstance(result, Rec) or result.adt != sp.ty:
        chk.ob(keyprefix, False, rule, loc, found=repr(result)[:300], required="a value of type %s" % sp.ty)
        return False
    for field, pd in sp.parts():
        got = value_part_poly(result, field)
        w = want[field]
        ok = equal(got, w)
        # independent cross-check of the exact rewriter by numeric identity testing of the two extracted forms
        num = numerically_equal(got, w)
        chk.count("rewriter verdicts cross-checked numerically" if num is not None else "rewriter verdicts without a usable numeric point")
        if ok and num is False:
            chk.checker_broken("rewriter claims %s == %s for %s|part=%s but the forms differ numerically" % (got.show()[:120], w.show()[:120], keyprefix, field))
        if (not ok) and num is True:
            # no positive evidence: the forms are numerically indistinguishable, the rewriter merely failed to prove them equal
            chk.undecide("%s|part=%s" % (keyprefix, field), "canonical forms differ syntactically but agree numerically (rewriter incomplete): "
                         "%s vs %s" % (got.show()[:160], w.show()[:160]), loc)
            continue
        chk.ob("%s|part=%s" % (keyprefix, field), ok, rule, loc,
               found=got.show(), required=w.show(),
               nontrivial=bool(w.t) and (not w.is_const()),
               detail=None if ok else "difference: %s" % (got - w).show())
        ok_all = ok_all and ok
    return ok_all


def body_loc(F, body):
    return "%s [%s]" % (F.loc(body["l"]), body["path"])


def check_lifting(chk, key0, rule, F, body, ty, opnames, base_of, extra_args=(), presences=None, env=None, result_of=None,
                  hooks=None):
    """generic whole-body obligation: along every decision-tree path, every part of the (dual) result equals the
    formal derivatives of the real expression base_of(ctx) over the operands' real parts"""
    pats = presences if presences is not None else [tuple(None for _ in opnames)]
    for pp in pats:
        absent = set()
        for nme, p in zip(opnames, pp):
            absent |= absent_set(nme, p)
        sp = Spec(ty, absent)

        def build():
            return [sp.operand(nme, p) for nme, p in zip(opnames, pp)] + [x() if callable(x) else x for x in extra_args]
        key1 = key0 + ("" if all(p is None for p in pp) else "|presence=" + "".join(pres_tag(p) for p in pp))
        try:
            paths = run_paths(F, body, build, oracle=sample_oracle(env) if env else None, hooks=hooks)
        except Unsupported as ex:
            chk.undecide(key1, "unsupported construct: %s" % ex, body_loc(F, body))
            continue
        for ctx, val, it, args in paths:
            key = key1 if len(paths) == 1 else key1 + "|path=" + path_descr(ctx)
            base = base_of(ctx)
            if base is None:
                continue
            if isinstance(val, PanicEx):
                chk.ob(key, False, rule, body_loc(F, body), found="panic: %s" % val.what)
                continue
            v = result_of(val) if result_of else val
            try:
                compare_parts(chk, key, rule, body_loc(F, body), sp, v, sp.spec_of_real(base))
            except Unsupported as ex:
                chk.undecide(key, "unsupported: %s" % ex, body_loc(F, body))


def two_presences(ty, n=1):
    """all-present and all-absent for each operand (vector types), else a single None tuple"""
    ps = presence_patterns(ty)
    if ps == [None]:
        return [tuple(None for _ in range(n))]
    import itertools
    return list(itertools.product([ps[-1], ps[0]], repeat=n))


# ---- nalgebra constructors (external summaries keyed by the resolved path)
from ..interp import DimV, Mat as _Mat


def _zeros(it, args, e):
    a = [unref(x) for x in args]
    if len(a) == 2 and all(isinstance(x, DimV) for x in a):
        return _Mat(it.dom.const(0), (a[0].name, a[1].name))
    raise Unsupported("zeros_generic arguments")


def _uninit(it, args, e):
    a = [unref(x) for x in args]
    if len(a) == 2 and all(isinstance(x, DimV) for x in a):
        return _Mat(None, (a[0].name, a[1].name))
    raise Unsupported("uninit arguments")


def _identity(it, args, e):
    a = [unref(x) for x in args]
    if len(a) == 2 and all(isinstance(x, DimV) for x in a):
        d = it.dom.named("δ")
        if hasattr(d, "subst"):
            return _Mat(Poly.var("δ", ("$r", "$c")), (a[0].name, a[1].name))
    raise Unsupported("identity_generic arguments")


def _from_element(it, args, e):
    a = [unref(x) for x in args]
    if len(a) == 3 and isinstance(a[0], DimV) and isinstance(a[1], DimV) and isinstance(a[2], Sc):
        return _Mat(a[2].v, (a[0].name, a[1].name))
    raise Unsupported("from_element_generic arguments")


_BUF = "<nalgebra::DefaultAllocator as nalgebra::allocator::Allocator<R, C>>::Buffer"
NALGEBRA = {
    "nalgebra::base::construction::<impl nalgebra::Matrix<T, R, C, %s<T>>>::zeros_generic" % _BUF: _zeros,
    "nalgebra::base::construction::<impl nalgebra::Matrix<T, R, C, %s<T>>>::identity_generic" % _BUF: _identity,
    "nalgebra::base::construction::<impl nalgebra::Matrix<T, R, C, %s<T>>>::from_element_generic" % _BUF: _from_element,
    "nalgebra::base::construction::<impl nalgebra::Matrix<T, R, C, %s<T>>>::repeat_generic" % _BUF: _from_element,
    "nalgebra::base::construction::<impl nalgebra::Matrix<std::mem::MaybeUninit<T>, R, C, %sUninit<T>>>::uninit" % _BUF: _uninit,
}


def decide_equal(chk, key, got, want, loc=""):
    """exact rewriter verdict, cross-checked numerically: True (equal) / False (different, with positive numeric evidence or no
    usable point) / None (recorded as UNDECIDED: syntactically different but numerically indistinguishable)"""
    ok = equal(got, want)
    num = numerically_equal(got, want)
    chk.count("rewriter verdicts cross-checked numerically" if num is not None else "rewriter verdicts without a usable numeric point")
    if ok and num is False:
        chk.checker_broken("rewriter claims %s == %s for %s but the forms differ numerically" % (got.show()[:120], want.show()[:120], key))
    if (not ok) and num is True:
        chk.undecide(key, "canonical forms differ syntactically but agree numerically (rewriter incomplete): %s vs %s" % (
            got.show()[:160], want.show()[:160]), loc)
        return None
    return ok


_HORNER_KIND = {}


def horner_call(F, body, args):
    """a helper that evaluates a polynomial over a constant coefficient table by Horner's scheme, recognised by what it
    computes (not by its name): returns (kind, x value, [coefficient values]) with kind 'poly' (c0 x^n + ...) or 'monic'
    (x^n + c0 x^(n-1) + ...), or None.  Probed once per body with a symbolic two-element table in the exact domain."""
    if len(args) != 2 or not body.get("path", "").startswith("bessel::"):
        return None
    a = [unref(v) for v in args]
    tabs = [i for i, v in enumerate(a) if isinstance(v, Tup) and v.vs and all(isinstance(unref(c), Sc) for c in v.vs)]
    if len(tabs) != 1:
        return None
    ti = tabs[0]
    key = (body["did"], ti)
    if key not in _HORNER_KIND:
        kind = None
        try:
            X_, c0, c1 = Poly.var("x"), Poly.var("c0"), Poly.var("c1")
            pa = [None, None]
            pa[ti] = Tup([Sc(c0), Sc(c1)])
            pa[1 - ti] = Sc(X_)
            it = Interp(F, DOMK)
            it.scalar_mode = True
            r = unref(it.call_body(body, pa))
            if isinstance(r, Sc):
                if equal(r.v, c0 * X_ + c1):
                    kind = "poly"
                elif equal(r.v, X_ * X_ + c0 * X_ + c1):
                    kind = "monic"
        except (Unsupported, PanicEx):
            kind = None
        _HORNER_KIND[key] = kind
    kind = _HORNER_KIND[key]
    if kind is None:
        return None
    return kind, a[1 - ti], a[ti].vs
