"""C18 — textual rendering shows every part faithfully."""
from .. import facts
from ..report import Check
from ..interp import IterV, StrV, Res, UNIT, DimV, HostFn
from .common import *

# symbols the repository documents (README.md / src/lib.rs: `125 + [75]ε`; docs/examples.rst: `ε1`, `ε2`, `ε1ε2`;
# Python class docstrings: `3 + [0]ε1 + [0]ε1²`).  Types without documented symbols are only checked for well-formedness.
DOCUMENTED = {
    "Dual": {"eps": "ε"}, "DualVec": {"eps": "ε"},
    "Dual2": {"v1": "ε1", "v2": "ε1²"}, "Dual2Vec": {"v1": "ε1", "v2": "ε1²"},
    "HyperDual": {"eps1": "ε1", "eps2": "ε2", "eps1eps2": "ε1ε2"},
    "HyperDualVec": {"eps1": "ε1", "eps2": "ε2", "eps1eps2": "ε1ε2"},
}
BAD_FIRST = set("0123456789.eE+-_ ")


class OutBuf:
    def __init__(self):
        self.tokens = []

    def __repr__(self):
        return "OutBuf(%r)" % (self.tokens,)


class JoinV:
    def __init__(self, elem, sep):
        self.elem, self.sep = elem, sep


class PartMat(Mat):
    """a view of part of a matrix (one column / row of a matrix that has several)"""
    __slots__ = ("why",)

    def __init__(self, p, shape, why):
        Mat.__init__(self, p, shape)
        self.why = why


class MatIter(IterV):
    """iterator over the elements of a matrix; `partial` says why it does not cover all of them (None = all elements)"""

    def __init__(self, items, mat, partial):
        IterV.__init__(self, items)
        self.mat, self.partial = mat, partial


class FmtInterp(Interp):
    """interpreter whose formatter argument is an output buffer of tokens"""

    def ev_mcall(self, e, env):
        if e["m"] in ("write_fmt", "write_str"):
            buf = unref(self.ev(e["recv"], env))
            if not isinstance(buf, OutBuf):
                self.unsupported("write_fmt on %r" % (buf,), e)
            if e["m"] == "write_str":
                s = unref(self.ev(e["args"][0], env))
                buf.tokens.append(("lit", s.s))
                return Res(True, UNIT)
            cs = self.F.locs[e["l"]].get("cs") or self.F.locs[e["l"]]["s"]
            facts_ = [f for f in self.F.fmt if f["callsite"] == cs or f["loc"] == cs]
            if len(facts_) != 1:
                self.unsupported("no unique format template for the write at %s" % cs, e)
            tpl = facts_[0]
            vals = self.format_values(e["args"][0], env, len(tpl["args"]))
            for p in tpl["pieces"]:
                if "lit" in p:
                    buf.tokens.append(("lit", p["lit"]))
                else:
                    v = vals[p["arg"]]
                    buf.tokens.append(("val", p["trait"], p["plain"], v, tpl["args"][p["arg"]]["expr"]))
            return Res(True, UNIT)
        return Interp.ev_mcall(self, e, env)

    def format_values(self, arg, env, n):
        if n == 0:
            return []
        # lowered format_args!:  { let args = (&a0, &a1, ..); let args = [Argument::new_*(args.0), ..]; unsafe { Arguments::new(..) } }
        b = arg
        while b["k"] == "block" and not b["b"]["stmts"] and b["b"].get("tail"):
            b = b["b"]["tail"]
        if b["k"] != "block" or not b["b"]["stmts"] or b["b"]["stmts"][0]["s"] != "let":
            self.unsupported("format_args lowering shape", arg)
        init = b["b"]["stmts"][0]["init"]
        if init["k"] == "tup":
            es = init["es"]
        else:
            es = [init]
        if len(es) != n:
            self.unsupported("format_args argument count", arg)
        return [unref(self.ev(x, env)) for x in es]

    def leaf_call(self, name, path, ipath, c, args, e):
        a0 = unref(args[0]) if args else None
        # ---- which elements of a matrix an iterator covers
        if isinstance(a0, Mat) and not isinstance(a0, PartMat):
            if name in ("nrows", "ncols") and len(args) == 1:
                return DimV(a0.shape[0 if name == "nrows" else 1])
            if name == "len" and len(args) == 1:
                return DimV("%s*%s" % a0.shape)
            if name in ("column", "row") and len(args) == 2:
                other = a0.shape[0] if name == "row" else a0.shape[1]
                if other == "1":
                    return a0                # the only column / row of a vector: all of it
                return PartMat(a0.p, (a0.shape[0], "1") if name == "column" else ("1", a0.shape[1]), "%s(..) of a %sx%s matrix" % ((name,) + a0.shape))
            if name in ("iter", "into_iter") and len(args) == 1:
                return MatIter([Sc(a0.p)], a0, None)
        if isinstance(a0, PartMat) and name in ("iter", "into_iter") and len(args) == 1:
            return MatIter([Sc(a0.p)], a0, a0.why)
        if isinstance(a0, MatIter):
            if name == "take" and len(args) == 2:
                k = unref(args[1])
                m = a0.mat
                full = isinstance(k, DimV) and (k.name == "%s*%s" % m.shape or (k.name == m.shape[0] and m.shape[1] == "1") or
                                                (k.name == m.shape[1] and m.shape[0] == "1"))
                return MatIter(a0.items, m, a0.partial if full else "take(%s) of the %sx%s elements" % ((getattr(k, "name", "?"),) + m.shape))
            if name in ("skip", "step_by", "filter", "skip_while", "take_while"):
                return MatIter(a0.items, a0.mat, "%s(..) drops elements" % name)
            if name == "map" and len(args) == 2:
                return MatIter([self.call_closure(unref(args[1]), [x], e) for x in a0.items], a0.mat, a0.partial)
            if name in ("copied", "cloned", "rev") and len(args) == 1:
                return a0
            if name == "collect":
                t = Tup(a0.items)
                if a0.partial:
                    t = Tup([StrV("NOT-ALL-ELEMENTS(%s):" % a0.partial + (unref(x).s if isinstance(unref(x), StrV) else repr(unref(x)))) for x in a0.items])
                return t
        if isinstance(a0, IterV):
            if name == "map" and len(args) == 2:
                return IterV([self.call_closure(unref(args[1]), [x], e) for x in a0.items])
            if name == "collect":
                return Tup(a0.items)
        if name == "join" and isinstance(a0, Tup) and len(args) == 2:
            sep = unref(args[1])
            items = [unref(x) for x in a0.vs]
            if len(items) == 1 and isinstance(items[0], StrV) and isinstance(sep, StrV):
                return JoinV(items[0].s, sep.s)
        if name == "shape" and isinstance(a0, Mat):
            return Tup([DimV(a0.shape[0]), DimV(a0.shape[1])])
        if name == "to_string" and isinstance(a0, Sc):
            return StrV("<%s>" % a0.v.show())
        return Interp.leaf_call(self, name, path, ipath, c, args, e)


def documented_sequences():
    """symbol sequences of rendered dual numbers shown in the repository's documentation (README, crate docs, docs/*.rst,
    Python class docstrings), e.g. `3 + [0]ε1 + [0]ε1²` -> ("ε1", "ε1²")"""
    import glob, os, re
    from ..facts import REPO
    files = [os.path.join(REPO, "README.md"), os.path.join(REPO, "src", "lib.rs")] + glob.glob(os.path.join(REPO, "docs", "*.rst")) + \
        glob.glob(os.path.join(REPO, "src", "python", "*.rs"))
    seqs = {}
    num = r"(?:\[[^\]]*\]|-?\d[\d.eE+-]*)"
    pat = re.compile(r"(%s)((?: \+ %s[^\s+]+)+)\s*$" % (num, num))
    for f in files:
        try:
            lines = open(f, encoding="utf-8").read().splitlines()
        except OSError:
            continue
        for i, line in enumerate(lines):
            m = pat.search(line.rstrip())
            if not m:
                continue
            parts = m.group(2).split(" + ")[1:]
            syms = []
            for p in parts:
                mm = re.match(num + r"(.+)$", p)
                if mm:
                    syms.append(mm.group(1))
            if syms and all("ε" in s_ or s_.startswith("v") for s_ in syms):
                seqs.setdefault(tuple(syms), "%s:%d" % (os.path.relpath(f, REPO), i + 1))
    return seqs


def run(tier):
    chk = Check("C18", tier, "other",
                "Display::fmt of each of the 8 types (and Derivative::fmt, inlined) is evaluated against an output-buffer formatter using the "
                "format templates of the expanded AST: along every path (presence pattern, unit / non-unit dimensions) the token sequence is "
                "`re` then, for every PRESENT part in declared field order exactly once, ` + `, all elements of the part (single element only "
                "under the 1x1 guard, iter() over all elements for vectors, the matrix's own Display otherwise), then a non-empty symbol; "
                "absent parts print nothing; all placeholders are plain Display; symbols are pairwise distinct, parse-safe after a number, and "
                "equal to the documented symbol where the repository documents one; Python __repr__ forwards to to_string (python configuration)",
                assumptions=["`{}` on f32/f64 prints a shortest round-tripping decimal (std guarantee)", "nalgebra's matrix Display prints every element",
                             "inner number types render by induction"],
                trusted_base=["rustc parser/expander (FormatArgs templates)", "ndv-export", "ndvlib/interp.py"])
    F = facts.load("default")
    rendered = {}
    for ty in TYPES:
        rendered[ty] = display(chk, F, ty)
    docs = documented_sequences()
    chk.count("documented renderings found", len(docs))
    produced = {tuple(v) for v in rendered.values() if v}
    for seq, where in sorted(docs.items()):
        chk.ob("display|documented|%s" % "+".join(seq), seq in produced,
               "a rendering shown in the documentation is produced by one of the number types (symbols in this order)", where,
               found="documented symbols %s; types render %s" % (list(seq), sorted(map(list, produced))), required="some type renders exactly these symbols")
    chk.floor("documented renderings found", len(docs), 3)
    if tier == "thorough":
        repr_forward(chk)
    chk.floor("Display impls", chk.analysed.get("Display impls", 0), 8)
    return chk.finish()


def display(chk, F, ty):
    imps = F.impls_of("Display", ty)
    body = F.impl_item(imps[0], "fmt") if len(imps) == 1 else None
    if body is None:
        chk.undecide("display|%s" % ty, "missing anchor: impl Display for %s" % ty)
        return
    chk.count("Display impls")
    g = GRADINGS[ty]
    symbols = {}
    n_unsupported = 0
    for pa in presence_patterns(ty):
        sp = Spec(ty, absent_set("self", pa))
        key0 = "display|%s%s" % (ty, "" if pa is None else "|presence=" + pres_tag(pa))
        bufs = []

        def thunk(ctx):
            it = FmtInterp(F, DOMK, ctx=ctx, extern=NALGEBRA)
            buf = OutBuf()
            r = it.call_body(body, [sp.operand("self", pa), buf])
            return (buf, r)
        try:
            paths = explore(thunk)
        except Unsupported as ex:
            chk.undecide(key0, "unsupported: %s" % ex, body_loc(F, body))
            n_unsupported += 1
            continue
        for ctx, (buf, r) in paths:
            pd = path_descr(ctx)
            key = key0 if len(paths) == 1 else key0 + "|path=" + pd
            dims_unit = {k[1] for (k, d, b, forced) in ctx.trace if k[0] == "dim" and b}
            ok, why, syms = grammar(F, ty, sp, pa, buf.tokens, dims_unit)
            chk.ob(key, ok, "rendering lists re, then every present part once in field order as ` + `, all its elements, its symbol",
                   body_loc(F, body), found=render(buf.tokens), required=why or "re (+ part symbol)*")
            rr = unref(r)
            chk.ob(key + "|result", isinstance(rr, Res) and rr.ok, "fmt returns Ok when every write succeeds", body_loc(F, body),
                   found=repr(rr)[:60], nontrivial=False)
            for f, s in syms.items():
                symbols.setdefault(f, set()).add(s)
    # symbol rules
    flat = {}
    for f, ss in symbols.items():
        chk.ob("display|%s|symbol|%s|unique" % (ty, f), len(ss) == 1, "a part has one symbol on every path", body_loc(F, body), found=sorted(ss),
               nontrivial=False)
        flat[f] = sorted(ss)[0]
    vals = list(flat.values())
    chk.ob("display|%s|symbols-distinct" % ty, len(set(vals)) == len(vals), "symbols are pairwise distinct within a type", body_loc(F, body),
           found=flat)
    for f, s in flat.items():
        safe = bool(s) and s[0] not in BAD_FIRST and not s.lower().startswith(("inf", "nan"))
        chk.ob("display|%s|symbol|%s|parse-safe" % (ty, f), safe, "a number followed by the symbol parses back unambiguously", body_loc(F, body),
               found=repr(s), required="non-empty, first character not in [0-9.eE+-_ ] and not the start of inf/NaN")
    # the symbol of a higher-order part is composed of the symbols of its directions: with first-order symbols s_d, the part of
    # multi-degree (d1, d2, ..) is rendered  s_d1 s_d2 ..  (a repeated direction as a power: ε1² , ε1³)
    first = {}
    for f, pd in g["parts"]:
        if len(pd) == 1 and f in flat:
            first[pd[0][0]] = flat[f]
    SUP = {2: "²", 3: "³"}
    by_field_name = bool(flat) and all(sym == f for f, sym in flat.items())    # the other convention in the crate: `v1`, `v2`, `v3`
    for f, pd in g["parts"]:
        if len(pd) < 2 or f not in flat or by_field_name:
            continue
        dirs = [d[0] for d in pd]
        if not all(d in first for d in dirs):
            continue
        want_sym, k = "", 0
        while k < len(dirs):
            run = 1
            while k + run < len(dirs) and dirs[k + run] == dirs[k]:
                run += 1
            want_sym += first[dirs[k]] + (SUP.get(run, "") if run > 1 else "")
            k += run
        chk.ob("display|%s|symbol|%s|composition" % (ty, f), flat[f] == want_sym,
               "the symbol of a higher-order part names the directions it belongs to (product of the first-order symbols)", body_loc(F, body),
               found=flat[f], required=want_sym)
    want_parts = [f for f, pd in g["parts"] if pd]
    if n_unsupported and sorted(flat) != sorted(want_parts):
        return None     # the formatter left the analysed fragment (recorded above): nothing to conclude about its symbols
    chk.ob("display|%s|all-parts-have-symbols" % ty, sorted(flat) == sorted(want_parts), "every derivative part is rendered with a symbol",
           body_loc(F, body), found=sorted(flat), required=sorted(want_parts))
    return [flat.get(f) for f in want_parts] if sorted(flat) == sorted(want_parts) else None


def render(tokens):
    out = []
    for t in tokens:
        if t[0] == "lit":
            out.append(t[1])
        else:
            v = t[3]
            out.append("{%s}" % (v.v.show() if isinstance(v, Sc) else (v.s if isinstance(v, StrV) else type(v).__name__ + ":" + t[4])))
    return "".join(out)


def grammar(F, ty, sp, pa, tokens, dims_unit):
    """validate the token sequence; returns (ok, reason, {field: symbol})"""
    g = GRADINGS[ty]
    toks = list(tokens)
    # merge: StrV values are literal text; drop empty literals
    flat = []
    for t in toks:
        if t[0] == "val" and isinstance(t[3], StrV):
            flat.append(("lit", t[3].s))
        elif t[0] == "lit":
            if t[1] != "":
                flat.append(t)
        else:
            if not (t[1] == "Display" and t[2]):
                return False, "placeholder `%s` is not a plain Display placeholder" % t[4], {}
            flat.append(t)
    # split literal text around values: sequence must be VAL(re) then for each present part: " + " ... VAL ... symbol
    pos = 0

    def take_val():
        nonlocal pos
        if pos < len(flat) and flat[pos][0] == "val":
            pos += 1
            return flat[pos - 1]
        return None
    # literal text between values is concatenated
    def take_lit():
        nonlocal pos
        s = ""
        while pos < len(flat) and flat[pos][0] == "lit":
            s += flat[pos][1]
            pos += 1
        return s
    pre = take_lit()
    if pre != "":
        return False, "text %r before the real part" % pre, {}
    v = take_val()
    if v is None or not (isinstance(v[3], Sc) and equal(v[3].v, Poly.var("self.re"))):
        return False, "first value is not the real part", {}
    syms = {}
    parts = [(f, pd) for f, pd in g["parts"] if pd]
    carry = take_lit()
    for f, pd in parts:
        present = True if (pa is None) else pa.get(f, True)
        if not present:
            continue
        if not carry.startswith(" + "):
            return False, "part %s is not introduced by ` + ` (found %r)" % (f, carry), syms
        opener = carry[3:]
        v = take_val()
        if v is None:
            return False, "part %s is missing" % f, syms
        idx = tuple(d[1] for d in pd if d[1] is not None)
        want = Poly.var("self.%s" % f, idx)
        val = v[3]
        closer_needed = ""
        if isinstance(val, Sc):
            # a single element: scalar part, or a matrix printed through m[0] which needs the 1x1 guard
            if not equal(val.v, want):
                return False, "part %s: value %s printed instead of %s" % (f, val.v.show(), want.show()), syms
            if idx:
                shape = g["shapes"][f]
                nonunit = {d for d in shape if d != "1"}
                if not nonunit <= dims_unit:
                    return False, "part %s: only one element printed without the 1x1 guard" % f, syms
            if opener != "":
                return False, "part %s: unexpected text %r" % (f, opener), syms
        elif isinstance(val, JoinV):
            if val.elem != "<%s>" % want.show():
                return False, "part %s: joined elements are %s" % (f, val.elem), syms
            if opener != "[":
                return False, "part %s: vector not opened by `[`" % f, syms
            closer_needed = "]"
        elif isinstance(val, Mat):
            if not equal(val.p, want):
                return False, "part %s: matrix %s printed instead of %s" % (f, val.p.show(), want.show()), syms
            if opener != "":
                return False, "part %s: unexpected text %r" % (f, opener), syms
        else:
            return False, "part %s: unsupported rendered value" % f, syms
        lit = take_lit()
        if not lit.startswith(closer_needed):
            return False, "part %s: vector not closed by `]`" % f, syms
        lit = lit[len(closer_needed):]
        # lit = symbol [+ " + " + next opener]
        cut = lit.find(" + ")
        if cut >= 0:
            sym, carry = lit[:cut], lit[cut:]
        else:
            sym, carry = lit, ""
        if sym == "":
            return False, "part %s has an empty symbol" % f, syms
        syms[f] = sym
    if carry != "" or pos != len(flat):
        return False, "trailing output %r" % (carry + render(flat[pos:])), syms
    return True, None, syms


def repr_forward(chk):
    try:
        F = facts.load("python")
    except facts.BuildFailed as ex:
        chk.undecide("repr", "python configuration does not build: %s" % ex)
        return
    n = 0
    for b in F.bodies.values():
        if b.get("name") != "__repr__":
            continue
        # fn __repr__(&self) -> PyResult<String> { Ok(self.0.to_string()) }
        from .. import walk
        from ..hirpp import expr_s
        calls = [x for x in walk.walk_body(b) if x.get("k") == "mcall"]
        ok = len(calls) == 1 and calls[0]["m"] == "to_string" and calls[0]["recv"]["k"] == "field" and calls[0]["recv"]["name"] == "0"
        n += 1
        chk.ob("repr|%s" % b["path"], ok, "__repr__ returns the Rust rendering self.0.to_string()", body_loc(F, b), found=expr_s(b["body"])[:160],
               nontrivial=False)
    chk.count("__repr__ methods", n)
    chk.floor("__repr__ methods", n, 50)
