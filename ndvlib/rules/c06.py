"""C06 — the real part is transparent and alone decides comparisons and branches."""
from .. import facts
from ..report import Check
from ..interp import Dep, DomC, Ref, OrdV
from . import algebra, ops, c09
from .algebra import X
from .common import *

FIELD4 = ["Dual", "DualVec", "Dual2", "Dual2Vec"]
FLOAT_ITEMS = {  # float DualNum item -> std method (DESIGN A.4)
    "recip": "recip", "powi": "powi", "powf": "powf", "powd": "powf", "sqrt": "sqrt", "cbrt": "cbrt", "exp": "exp",
    "exp2": "exp2", "exp_m1": "exp_m1", "ln": "ln", "log": "log", "log2": "log2", "log10": "log10", "ln_1p": "ln_1p",
    "sin": "sin", "cos": "cos", "tan": "tan", "sin_cos": "sin_cos", "asin": "asin", "acos": "acos", "atan": "atan",
    "atan2": "atan2", "sinh": "sinh", "cosh": "cosh", "tanh": "tanh", "asinh": "asinh", "acosh": "acosh",
    "atanh": "atanh", "mul_add": "mul_add",
}


def deps_in(key):
    out = set()
    if isinstance(key, frozenset):
        out |= set(key)
    elif isinstance(key, tuple):
        for k in key:
            out |= deps_in(k)
    return out


def run(tier):
    chk = Check("C06", tier, "proof",
                "non-interference by a sound dependency analysis (union of operand dependencies through every operation, "
                "data and control dependence, every decision-tree path): the real part of every result and every guard of "
                "every DualNum item, operator, Signed/Inv/From item and field-trait method depends on operand real parts and "
                "scalar parameters only; comparison traits and predicates forward to the real part in argument order; min/max/clamp "
                "agree with the reference selection on all weak orderings; plain-float instances forward to std; branch agreement: with guards "
                "decided at sample real parts on both sides of every switch, each unary interface method's real part is the expression the "
                "plain-float instance evaluates on its own path",
                assumptions=["floating-point operations are deterministic functions of their arguments",
                             "the 'few ulps' clause (recip-then-multiply forms) is not decided", "NaN orderings excluded"],
                trusted_base=["rustc type checker and name resolution", "ndv-export", "interpreter skeleton (ndvlib/interp.py)"])
    F = facts.load("default")
    fimps = [i for i in F.impls_of("DualNum") if F.ty(i["self"]).get("n") == "f64"]
    for ty in TYPES:
        noninterference(chk, F, ty)
        predicates(chk, F, ty)
        re_forms(chk, F, ty)
        branch_agreement(chk, F, ty, fimps[0] if len(fimps) == 1 else None, samples=THOROUGH_SAMPLES if tier == "thorough" else SAMPLES)
        if GRADINGS[ty]["vec"]:
            representation_independence(chk, F, ty)
    for ty in FIELD4:
        comparisons(chk, F, ty)
        selections(chk, F, ty)
        from . import c11
        imps = F.impls_of("RealField", ty)
        if len(imps) == 1:
            c11.copysign_rule(chk, F, ty, imps[0], tag="select")
    float_instances(chk, F)
    # conversions between float widths are operations too: the real part of the result is the converted real part (rule set of C13)
    from . import c13
    c13.container_conversions(chk, F, True)
    for ty in FIELD4:
        c13.type_conversions(chk, F, ty, True)
    chk.floor("operations dependency-analysed", chk.analysed.get("operations dependency-analysed", 0), 8 * 60)
    chk.floor("comparison items", chk.analysed.get("comparison items", 0), 20)
    chk.floor("float items", chk.analysed.get("float items", 0), 2 * 29)
    chk.floor("interface methods compared with the float instance", chk.analysed.get("interface methods compared with the float instance", 0), 8 * 25)
    return chk.finish()


def noninterference(chk, F, ty):
    for label, body, tr in ops.operations(F, ty):
        name = body["name"]
        if name in ("floor", "ceil", "round", "trunc", "fract"):
            continue  # panic by design
        dom = DomC()
        key0 = "dep|%s|%s" % (ty, label)
        state = {}

        def thunk(ctx):
            it = Interp(F, dom, ctx=ctx)
            args, cells = ops.build_args(F, ty, body, lambda n: ops.dep_operand(ty, n), lambda n: Sc(Dep({"param." + n})))
            if args is None:
                raise Unsupported("signature outside the fragment")
            v = it.call_body(body, args)
            state["cells"] = cells
            return v
        try:
            paths = explore(thunk, max_paths=128)
        except Unsupported as ex:
            if "signature outside" in str(ex):
                chk.count("operations skipped (no dual operand / unsupported signature)")
                continue
            chk.undecide(key0, "unsupported: %s" % ex, body_loc(F, body))
            continue
        chk.count("operations dependency-analysed")
        bad = []
        for ctx, val in paths:
            gdeps = set()
            for (k, d, b, forced) in ctx.trace:
                gdeps |= deps_in(k)
            outs = []
            if isinstance(val, PanicEx):
                continue
            collect_results(unref(val), ty, outs)
            for cell in state.get("cells") or []:
                collect_results(unref(cell[0]), ty, outs)
            leak_g = sorted(d for d in gdeps if not allowed(d))
            if leak_g:
                bad.append("guard depends on %s" % leak_g)
            for r in outs:
                re = unref(r.f["re"])
                rd = set(re.v.s) if isinstance(re, Sc) else set()
                leak = sorted(d for d in rd if not allowed(d))
                if leak:
                    bad.append("result.re depends on %s" % leak)
        chk.ob(key0, not bad, "real part of the result and all guards depend on real parts / scalar parameters only",
               body_loc(F, body), found="; ".join(sorted(set(bad))) or "re <- real parts only (%d paths)" % len(paths),
               required="deps(re) and deps(guards) within {operand.re, scalar parameters}")


def term_operand(ty, opname, presence=None):
    from ..interp import Term
    g = GRADINGS[ty]
    f = {}
    for field, pd in g["parts"]:
        t = Term(("var:%s.%s" % (opname, field),))
        if not pd:
            f[field] = Sc(t)
        else:
            present = True if presence is None else presence.get(field, True)
            f[field] = Rec("Derivative", {"0": Opt(True, Mat(t, g["shapes"][field])) if present else Opt(False), "1": PHANTOM})
    f["f"] = PHANTOM
    return Rec(ty, f)


def representation_independence(chk, F, ty):
    """the real part of every result is computed by the SAME float operations whichever presence pattern the operands have
    (an absent part and an explicit zero part must not change a single bit of the real part): the uninterpreted term of
    result.re, per decision-tree path, is identical for all presence patterns"""
    from ..interp import DomT, Term
    import itertools
    pats = presence_patterns(ty)
    for label, body, tr in ops.operations(F, ty):
        name = body["name"]
        if name in ("floor", "ceil", "round", "trunc", "fract") or tr in ("From", "Zero", "One"):
            continue
        key0 = "repr|%s|%s" % (ty, label)
        sig = body.get("sig_in", [])
        n_dual = 0
        for ti in sig:
            t = F.peel(ti)
            if (t["k"] == "adt" and t["n"].split("::")[-1] == ty) or (t["k"] == "param" and t["n"] == "Self"):
                n_dual += 1
        if n_dual == 0 or n_dual > 2:
            continue
        reference = None
        bad = []
        undecided = None
        combos = list(itertools.product(pats, repeat=n_dual))
        if len(combos) > 64:
            combos = [c for c in combos if sum(sum(p.values()) for p in c) in (0, 1, sum(len(p) for p in c) - 1, sum(len(p) for p in c))]
        for combo in combos:
            it_ops = iter(combo)
            dom = DomT()
            state = {}

            def thunk(ctx, combo=combo):
                it = Interp(F, dom, ctx=ctx)
                ps = iter(combo)
                names = iter(["a", "b", "c"])

                def mk(n):
                    return term_operand(ty, n, next(ps))
                args, cells = ops.build_args(F, ty, body, mk, lambda n: Sc(Term(("var:param." + n,))))
                if args is None:
                    raise Unsupported("signature outside the fragment")
                v = it.call_body(body, args)
                state["cells"] = cells
                return v
            try:
                paths = explore(thunk, max_paths=64)
            except Unsupported as ex:
                undecided = str(ex)
                break
            sigset = set()
            for ctx, val in paths:
                if isinstance(val, PanicEx):
                    continue
                outs = []
                collect_results(unref(val), ty, outs)
                for cell in state.get("cells") or []:
                    collect_results(unref(cell[0]), ty, outs)
                cond = tuple(sorted((repr(k), b) for (k, d, b, forced) in ctx.trace if k[0] != "dim"))
                for r in outs:
                    re = unref(r.f["re"])
                    if isinstance(re, Sc):
                        sigset.add((cond, re.v.show()))
            if reference is None:
                reference = (combo, sigset)
            elif sigset != reference[1]:
                diff = sorted(x[1] for x in (sigset ^ reference[1]))[:2]
                bad.append("presence %s computes the real part as %s" % ("".join(pres_tag(p) for p in combo), diff))
        if undecided:
            if "signature outside" in undecided:
                continue
            chk.undecide(key0, "unsupported: %s" % undecided, body_loc(F, body))
            continue
        chk.count("operations checked for representation independence")
        chk.ob(key0, not bad, "the real part is computed by the same operations for every presence pattern of the operands' optional parts",
               body_loc(F, body), found="; ".join(bad[:3]) or "identical real-part term for %d presence combinations" % len(combos),
               required="one real-part term", nontrivial=True)


def allowed(d):
    return d.endswith(".re") or d.startswith("param.")


def collect_results(v, ty, out):
    if isinstance(v, Rec) and v.adt == ty:
        out.append(v)
    elif isinstance(v, Tup):
        for x in v.vs:
            collect_results(unref(x), ty, out)
    elif isinstance(v, Opt) and v.some:
        collect_results(unref(v.v), ty, out)


def re_forms(chk, F, ty):
    """real part of arithmetic / elementary functions equals the same operation on the real parts (A-forms)"""
    sp = Spec(ty)
    A, B = Poly.var("a.re"), Poly.var("b.re")
    for trait, base in (("Mul", A * B), ("Div", A * B.recip()), ("Add", A + B), ("Sub", A - B)):
        body = refref_binop(F, ty, trait)
        if body is None:
            chk.undecide("re|%s|%s" % (ty, trait), "missing anchor")
            continue
        try:
            r = unref(Interp(F, DOMK).call_body(body, [sp.operand("a"), sp.operand("b")]))
            got = value_part_poly(r, "re")
            chk.ob("re|%s|%s" % (ty, trait.lower()), equal(got, base), "real part of a op b is a.re op b.re", body_loc(F, body),
                   found=got.show(), required=base.show())
        except Unsupported as ex:
            chk.undecide("re|%s|%s" % (ty, trait), "unsupported: %s" % ex, body_loc(F, body))
    imp = algebra.dualnum_impl(F, ty)
    for name in algebra.UNARY + ["tan", "tanh"]:
        body = F.impl_item(imp, name) if imp else None
        if body is None:
            chk.undecide("re|%s|%s" % (ty, name), "missing anchor")
            continue
        try:
            r = unref(Interp(F, DOMK).call_body(body, [sp.operand("self")]))
            got = value_part_poly(r, "re")
            want = algebra.real_fn(name, X)
            chk.ob("re|%s|%s" % (ty, name), equal(got, want), "real part of g(x) is g(x.re)", body_loc(F, body),
                   found=got.show(), required=want.show())
        except Unsupported as ex:
            chk.undecide("re|%s|%s" % (ty, name), "unsupported: %s" % ex, body_loc(F, body))


SAMPLES = (Fr(-3), Fr(-1, 2), -Fr(1, 2 ** 60), Fr(0), Fr(1, 2 ** 60), Fr(1, 2), Fr(3))


def expand_named(p):
    """tan / tanh written through sin, cos / sinh, cosh (the canonical form used for the dual side)"""
    def f(a):
        if a[0] == "f" and a[1] in ("tan", "tanh"):
            arg = expand_named(a[2])
            s_, c_ = ("sin", "cos") if a[1] == "tan" else ("sinh", "cosh")
            return apply_fn(s_, arg) * apply_fn(c_, arg).recip()
        return None
    return p.subst(f)


THOROUGH_SAMPLES = tuple(sorted(set(SAMPLES) | {s_ * v for s_ in (1, -1) for v in (
    Fr(1, 2 ** 1074), Fr(1, 2 ** 1022), Fr(1, 2 ** 53), Fr(1, 2 ** 52), Fr(1, 2 ** 51), Fr(1, 2 ** 24), Fr(1, 2 ** 23), Fr(1, 2 ** 22),
    Fr(1, 10 ** 5), Fr(1, 1000), Fr(1), Fr(2), Fr(5), Fr(10), Fr(50), Fr(10 ** 6))}))


def branch_agreement(chk, F, ty, fimp, samples=SAMPLES):
    """every unary method of the generic interface, evaluated with its guards decided at sample real parts (both signs, both
    sides of every switch), returns a real part that is the SAME real expression the plain-float instance computes on its own
    path for that sample: the dual evaluation takes the float evaluation's branch"""
    imp = algebra.dualnum_impl(F, ty)
    if imp is None or fimp is None:
        return
    A_ = Poly.var("a.re")
    for it in imp["items"]:
        name = it["name"]
        body = F.bodies.get(it["did"])
        fb = F.impl_item(fimp, name)
        if body is None or fb is None or len(body["params"]) != 1 or name in ("re", "from_inner", "sin_cos"):
            continue
        chk.count("interface methods compared with the float instance")
        for x in samples:
            env = dict(CONST_ENV)
            env.update({("v", "a.re", ()): x, ("c", "EPS"): EPS_VALUE})
            key = "branch|%s|%s|x=%s" % (ty, name, x)
            try:
                sp = Spec(ty)
                ps = run_paths(F, body, lambda: [sp.operand("a")], oracle=sample_oracle(env))

                def thunk(ctx):
                    i2 = Interp(F, DOMK, ctx=ctx)
                    i2.scalar_mode = True
                    return i2.call_body(fb, [Sc(A_)])
                fs = list(explore(thunk, sample_oracle(env)))
                if len(ps) != 1 or len(fs) != 1:
                    chk.undecide(key, "a guard is not decided by the sampled real part (%d dual paths, %d float paths)" % (len(ps), len(fs)), body_loc(F, body))
                    break
                r, fr = unref(ps[0][1]), unref(fs[0][1])
                if isinstance(r, PanicEx) or isinstance(fr, PanicEx):
                    continue
                if not isinstance(r, Rec) or not isinstance(fr, Sc):
                    break
                got = value_part_poly(r, "re")
                want = expand_named(fr.v)
                chk.ob(key, equal(got, want), "at this real part the dual method's real part is the expression the plain-float instance "
                       "evaluates (same branch taken)", body_loc(F, body), found="%s   [dual path: %s]" % (got.show()[:160], path_descr(ps[0][0])[:80]),
                       required="%s   [float path: %s]" % (want.show()[:160], path_descr(fs[0][0])[:80]))
            except Unsupported as ex:
                chk.undecide(key, "unsupported: %s" % ex, body_loc(F, body))
                break


REF_PRED = {
    "is_zero": lambda v: v == 0, "is_one": lambda v: v == 1, "is_positive": lambda v: v > 0, "is_negative": lambda v: v < 0,
    "is_sign_positive": lambda v: v >= 0, "is_sign_negative": lambda v: v < 0, "is_finite": None,
}


def single_pred_forward(chk, F, key, body, sp, pred, operand="a"):
    """the predicate is decided by the real part only and agrees with the same predicate of the real part on every sign / value
    case (the decisions may be the predicate itself or an equivalent comparison of the real part with a constant)"""
    from .c01 import guard_on_re_only
    xa = ("v", "%s.re" % operand, ())
    ref = REF_PRED.get(pred)
    bad = []
    if ref is None:
        paths = run_paths(F, body, lambda: [sp.operand(operand)])
        xk = Poly.var("%s.re" % operand).key()
        ok = len(paths) == 2 and all(
            len(c.trace) == 1 and c.trace[0][0] == ("pred", pred, xk) and isinstance(unref(v), BoolV) and unref(v).b == c.trace[0][2]
            for c, v, _, _ in paths)
        chk.ob(key, ok, "%s forwards to the same predicate of the real part" % pred, body_loc(F, body),
               found=[path_descr(c) for c, _, _, _ in paths], required="%s(%s.re)" % (pred, operand), nontrivial=False)
        chk.count("predicate items")
        return
    for v in (Fr(-2), Fr(-1), Fr(0), Fr(1), Fr(2)):
        env = {xa: v, ("c", "EPS"): EPS_VALUE}
        paths = run_paths(F, body, lambda: [sp.operand(operand)], oracle=sample_oracle(env))
        for c, val, _, _ in paths:
            for (k, d, b, forced) in c.trace:
                if not guard_on_re_only(k):
                    bad.append("decision on a derivative part: %s" % d)
        if len(paths) != 1:
            bad.append("at re = %s the result is not determined by the real part (%d paths)" % (v, len(paths)))
            continue
        r = unref(paths[0][1])
        if not isinstance(r, BoolV) or r.b != ref(v):
            bad.append("at re = %s returns %r, the predicate of the real part is %s" % (v, r, ref(v)))
    if pred in ("is_positive", "is_negative", "is_sign_positive", "is_sign_negative"):
        # signed zeros: these predicates of a float are SIGN-BIT tests (num_traits / std): is_negative(-0.0) holds, is_positive(+0.0) holds;
        # an ordering comparison of the real part with zero is a different predicate exactly there
        from .c11 import signed_zero_oracle
        for tag, negative in (("+0.0", False), ("-0.0", True)):
            env = {xa: Fr(0), ("c", "EPS"): EPS_VALUE}
            paths = run_paths(F, body, lambda: [sp.operand(operand)], oracle=signed_zero_oracle(env, negative))
            want = negative if pred in ("is_negative", "is_sign_negative") else not negative
            if len(paths) != 1:
                bad.append("at re = %s the result is not determined by the real part (%d paths)" % (tag, len(paths)))
                continue
            r = unref(paths[0][1])
            if not isinstance(r, BoolV) or r.b != want:
                bad.append("at re = %s returns %r, the predicate of the real part (a sign-bit test) is %s" % (tag, r, want))
    chk.ob(key, not bad, "%s is decided by the real part only and equals %s of the real part" % (pred, pred), body_loc(F, body),
           found=sorted(set(bad))[:4] or "agrees on all sign cases", required="%s(%s.re)" % (pred, operand), nontrivial=False)
    chk.count("predicate items")


def default_is_one(chk, F, key, imp, ty, sp):
    """`is_one` not overridden: num_traits' provided method is `*self == Self::one()`, i.e. the type's PartialEq"""
    one_body = F.impl_item(imp, "one")
    if one_body is None:
        chk.undecide(key, "missing anchor: One::one for %s" % ty)
        return

    def thunk(ctx):
        it = Interp(F, DOMK, ctx=ctx)
        one = unref(it.call_body(one_body, []))
        return it.rec_compare("eq", "==", sp.operand("a"), one, None, None)
    try:
        paths = explore(thunk)
    except Unsupported as ex:
        chk.undecide(key, "unsupported: %s" % ex, F.loc(imp["l"]))
        return
    from .c01 import guard_on_re_only
    bad = []
    for ctx, val in paths:
        re_dec = None
        for (k, d, b, forced) in ctx.trace:
            if not guard_on_re_only(k):
                bad.append(d)
            elif re_dec is None:
                re_dec = b
        v = unref(val)
        if isinstance(v, BoolV) and re_dec is not None and v.b != re_dec:
            bad.append("result %s although the real-part test says %s (presence of derivative parts decides)" % (v.b, re_dec))
    chk.ob(key, not bad, "is_one (num_traits default `*self == Self::one()`) is decided by the real part only", F.loc(imp["l"]),
           found="compares derivative parts: %s" % sorted(set(bad))[:4] if bad else "real part only (%d paths)" % len(paths),
           required="is_one(a.re)")
    chk.count("predicate items")


def predicates(chk, F, ty):
    sp = Spec(ty)
    for tr, preds in (("Zero", ["is_zero"]), ("One", ["is_one"]), ("Signed", ["is_positive", "is_negative"])):
        imps = F.impls_of(tr, ty)
        for pred in preds:
            body = F.impl_item(imps[0], pred) if len(imps) == 1 else None
            key = "pred|%s|%s" % (ty, pred)
            if body is None and pred == "is_one" and len(imps) == 1:
                default_is_one(chk, F, key, imps[0], ty, sp)
                continue
            if body is None:
                chk.undecide(key, "missing anchor: %s::%s for %s" % (tr, pred, ty))
                continue
            try:
                single_pred_forward(chk, F, key, body, sp, pred)
            except Unsupported as ex:
                chk.undecide(key, "unsupported: %s" % ex, body_loc(F, body))
    if ty in FIELD4:
        imps = F.impls_of("RealField", ty)
        for pred in ("is_sign_positive", "is_sign_negative"):
            body = F.impl_item(imps[0], pred) if len(imps) == 1 else None
            key = "pred|%s|%s" % (ty, pred)
            if body is None:
                chk.undecide(key, "missing anchor")
                continue
            try:
                single_pred_forward(chk, F, key, body, sp, pred)
            except Unsupported as ex:
                chk.undecide(key, "unsupported: %s" % ex, body_loc(F, body))


def comparisons(chk, F, ty):
    sp = Spec(ty)
    A, B, EPS, MR = (Poly.var("a.re"), Poly.var("b.re"), Poly.var("c.re"), Poly.var("d.re"))
    # PartialEq::eq
    for tr, meth in (("PartialEq", "eq"), ("PartialOrd", "partial_cmp"), ("AbsDiffEq", "abs_diff_eq"),
                     ("RelativeEq", "relative_eq"), ("UlpsEq", "ulps_eq")):
        imps = F.impls_of(tr, ty)
        body = F.impl_item(imps[0], meth) if len(imps) == 1 else None
        key = "cmp|%s|%s" % (ty, meth)
        if body is None:
            chk.undecide(key, "missing anchor: %s::%s for %s" % (tr, meth, ty))
            continue
        chk.count("comparison items")
        try:
            if meth == "partial_cmp":
                r = unref(Interp(F, DOMK).call_body(body, [sp.operand("a"), sp.operand("b")]))
                ok = isinstance(r, OrdV) and equal(r.a.v, A) and equal(r.b.v, B)
                chk.ob(key, ok, "partial_cmp forwards to partial_cmp of the real parts in argument order", body_loc(F, body),
                       found=repr(r)[:200], required="a.re.partial_cmp(&b.re)", nontrivial=False)
                continue
            nargs = len(body["params"])
            names = ["a", "b", "c", "d"][:nargs]

            def build():
                out = []
                for i, nme in enumerate(names):
                    t = F.peel(body["sig_in"][i])
                    if t["k"] == "adt" and t["n"].split("::")[-1] == ty:
                        out.append(sp.operand(nme))
                    else:
                        out.append(Sc(Poly.var("param." + nme)))
                return out
            paths = run_paths(F, body, build)
            good = len(paths) == 2
            for c, v, _, _ in paths:
                if len(c.trace) != 1:
                    good = False
                    continue
                k = c.trace[0][0]
                if meth == "eq":
                    want = ("cmp", "==", A.key(), B.key())
                    good = good and k == want and unref(v).b == c.trace[0][2]
                else:
                    # ("approx", name, key(a.re), key(b.re), key(eps.re) [, ...])
                    good = good and k[0] == "approx" and k[1] == meth and k[2] == A.key() and k[3] == B.key() and k[4] == EPS.key()
                    if meth == "relative_eq":
                        good = good and k[5] == MR.key()
                    if meth == "ulps_eq":
                        good = good and k[5] == Poly.var("param.d").key()
                    good = good and unref(v).b == c.trace[0][2]
            chk.ob(key, good, "%s forwards to the same method on the real parts, arguments in order" % meth, body_loc(F, body),
                   found=[path_descr(c) for c, _, _, _ in paths], nontrivial=False)
        except Unsupported as ex:
            chk.undecide(key, "unsupported: %s" % ex, body_loc(F, body))


def weak_orderings(n):
    """all weak orderings of n items as rank tuples"""
    import itertools
    seen = set()
    for ranks in itertools.product(range(n), repeat=n):
        # canonical: ranks used must be 0..k contiguous
        used = sorted(set(ranks))
        if used != list(range(len(used))):
            continue
        seen.add(ranks)
    return sorted(seen)


def selections(chk, F, ty):
    imps = F.impls_of("RealField", ty)
    if len(imps) != 1:
        chk.undecide("select|%s" % ty, "missing anchor: impl RealField for %s" % ty)
        return
    imp = imps[0]
    sp = Spec(ty)
    names = ["a", "b", "c"]
    ref = {
        "max": lambda r: max(r[0], r[1]),
        "min": lambda r: min(r[0], r[1]),
        "clamp": lambda r: (r[1] if r[0] < r[1] else (r[2] if r[0] > r[2] else r[0])),
    }
    for meth, n in (("max", 2), ("min", 2), ("clamp", 3)):
        body = F.impl_item(imp, meth)
        key = "select|%s|%s" % (ty, meth)
        if body is None:
            chk.undecide(key, "missing anchor")
            continue
        chk.count("selection items")
        for ranks in weak_orderings(n):
            if meth == "clamp" and ranks[1] > ranks[2]:
                continue  # precondition lo <= hi
            env = {("v", "%s.re" % names[i], ()): Fr(ranks[i]) for i in range(n)}
            try:
                paths = run_paths(F, body, lambda: [sp.operand(names[i]) for i in range(n)], oracle=sample_oracle(env))
            except Unsupported as ex:
                chk.undecide(key, "unsupported: %s" % ex, body_loc(F, body))
                break
            k2 = "%s|ordering=%s" % (key, "".join(map(str, ranks)))
            if len(paths) != 1:
                chk.ob(k2, False, "selection is decided by comparisons of real parts only", body_loc(F, body),
                       found=[path_descr(c) for c, _, _, _ in paths])
                continue
            ctx, val, _, _ = paths[0]
            val = unref(val)
            which = None
            for i in range(n):
                op = sp.operand(names[i])
                if isinstance(val, Rec) and val.adt == ty and all(
                        equal(value_part_poly(val, f), value_part_poly(op, f)) for f, _ in sp.parts()):
                    which = i
            want_rank = ref[meth](ranks)
            ok = which is not None and ranks[which] == want_rank
            if ok and meth == "clamp":
                # the float reference is exact about WHICH value comes back: `self` unless it is strictly outside the bounds -- on a tie with
                # a bound the operand itself is returned (its sign of zero, its NaN, its derivative parts), not the bound
                idx = 1 if ranks[0] < ranks[1] else (2 if ranks[0] > ranks[2] else 0)
                if which != idx:
                    chk.ob(k2 + "|tie", False, "clamp returns self unless self is strictly below min / above max (f64::clamp)", body_loc(F, body),
                           found="operand %s" % names[which], required="operand %s" % names[idx])
                    continue
            chk.ob(k2, ok, "%s returns one operand wholesale, the one the reference selection picks" % meth, body_loc(F, body),
                   found="operand %s" % (names[which] if which is not None else repr(val)[:120]),
                   required="an operand of rank %d" % want_rank)


def float_instances(chk, F):
    for fl in ("f32", "f64"):
        imps = [i for i in F.impls_of("DualNum") if F.ty(i["self"]).get("n") == fl]
        if len(imps) != 1:
            chk.undecide("float|%s" % fl, "missing anchor: impl DualNum<%s> for %s" % (fl, fl))
            continue
        for name, std in FLOAT_ITEMS.items():
            body = F.impl_item(imps[0], name)
            key = "float|%s|%s" % (fl, name)
            if body is None:
                chk.undecide(key, "missing anchor")
                continue
            ok, found = c09.forwards_to_std(F, body, fl, std)
            chk.ob(key, ok, "plain-float %s returns what the standard library %s::%s returns" % (name, fl, std), body_loc(F, body),
                   found=found, required="%s::%s(*self, args...)" % (fl, std), nontrivial=False)
            chk.count("float items")
        for name in ("re", "from_inner"):
            body = F.impl_item(imps[0], name)
            if body is None:
                chk.undecide("float|%s|%s" % (fl, name), "missing anchor")
                continue
            r = unref(Interp(F, DOMK).call_body(body, [Sc(Poly.var("x"))]))
            chk.ob("float|%s|%s" % (fl, name), isinstance(r, Sc) and equal(r.v, Poly.var("x")), "%s is the identity on floats" % name,
                   body_loc(F, body), nontrivial=False)
