"""C16 — serialization round-trips every part of a dual number (structure of the derive expansions)."""
from .. import facts
from ..report import Check
from .. import walk
from ..hirpp import expr_s
from .common import *

SERDE_TYPES = ["Dual", "Dual2", "Dual3", "HyperDual", "HyperHyperDual"]


def lit_str(e):
    while e["k"] in ("addr",):
        e = e["a"]
    if e["k"] == "lit" and e["lit"]["k"] == "str":
        return e["lit"]["v"]
    return None


def self_field(e):
    while e["k"] in ("addr",) or (e["k"] == "un" and e["op"] == "deref"):
        e = e["a"]
    if e["k"] == "field" and e["a"]["k"] == "path" and e["a"]["res"].get("name") == "self":
        return e["name"]
    return None


def run(tier):
    chk = Check("C16", tier, "other",
                "from the expanded derive code of the 5 scalar types (serde configuration): Serialize announces exactly the data fields and "
                "writes each once under its own identifier in declared order; Deserialize maps each key string to the field of the same name "
                "(key -> variant -> local -> struct field chain through visit_str, visit_map, the final struct literal), reads positional "
                "elements in the same order (visit_seq), and defaults only the phantom marker; both derives exist for every type; the inner "
                "type is serialized through its own impl (bound on T)",
                assumptions=["bit-exactness of the textual float representation is the data format's (serde_json) property",
                             "serde's derive macro output is what the compiler type-checked (analysed as expanded)"],
                trusted_base=["rustc expansion + type checker", "ndv-export", "the structural walkers in ndvlib/rules/c16.py"])
    F = facts.load("serde")
    for ty in SERDE_TYPES:
        one_type(chk, F, ty)
    chk.floor("serde types", chk.analysed.get("serde types", 0), 5)
    return chk.finish()


def data_fields(F, ty):
    adt = F.adts[ty]
    out = []
    for f in adt["fields"]:
        if "PhantomData" in F.ty_s(f["t"]):
            continue
        out.append(f["name"])
    return out, [f["name"] for f in adt["fields"] if "PhantomData" in F.ty_s(f["t"])]


def one_type(chk, F, ty):
    if ty not in F.adts:
        chk.undecide("serde|%s" % ty, "missing anchor: struct %s" % ty)
        return
    fields, phantoms = data_fields(F, ty)
    ser = [i for i in F.impls.values() if F.adt_name(i["self"]) == ty and (i.get("trait") or "").endswith("::Serialize")]
    de = [i for i in F.impls.values() if F.adt_name(i["self"]) == ty and (i.get("trait") or "").endswith("::Deserialize")]
    chk.ob("serde|%s|derives" % ty, len(ser) == 1 and len(de) == 1, "Serialize and Deserialize are both derived for %s" % ty, "",
           found="%d Serialize, %d Deserialize impl(s)" % (len(ser), len(de)), required="1 and 1", nontrivial=False)
    if len(ser) != 1 or len(de) != 1:
        return
    chk.count("serde types")
    # ---------------- Serialize
    body = F.impl_item(ser[0], "serialize")
    loc = body_loc(F, body)
    calls = []
    announced = None
    announced_name = None
    for n in walk.walk_body(body):
        c = walk.callee_of(n)
        if n.get("k") == "call" and c:
            if c.get("name") == "serialize_field":
                calls.append((lit_str(n["args"][1]), self_field(n["args"][2])))
            elif c.get("name") == "serialize_struct":
                announced_name = lit_str(n["args"][1])
                announced = sum(1 for x in walk.walk(n["args"][2]) if x.get("k") == "lit" and x["lit"].get("v") == "1")
            elif c.get("name", "").startswith("serialize_") and c.get("name") not in ("serialize_field", "serialize_struct"):
                calls.append((c.get("name"), None))
            elif c.get("name") == "skip_field":
                calls.append(("skip_field", None))
    want = [(f, f) for f in fields]
    chk.ob("serde|%s|serialize|fields" % ty, calls == want,
           "every data field is written exactly once under its own name, in declared order, and nothing else is written", loc,
           found=calls, required=want)
    chk.ob("serde|%s|serialize|announced" % ty, announced == len(fields) and announced_name == ty,
           "the struct is announced under its own name with the number of data fields", loc,
           found="%s, %s fields" % (announced_name, announced), required="%s, %d fields" % (ty, len(fields)), nontrivial=False)
    preds = " ".join(ser[0].get("preds", []))
    chk.ob("serde|%s|serialize|inner-bound" % ty, "T: " in preds and "Serialize" in preds, "nested numbers are serialized through the inner type's impl",
           F.loc(ser[0]["l"]), found=preds[:200], nontrivial=False)
    # ---------------- Deserialize
    prefix = None
    dbody = F.impl_item(de[0], "deserialize")
    vis = {}
    for b in F.bodies.values():
        p = b["path"]
        if ("Deserialize<'de> for %s::" % module_of(F, ty)) in p.replace(" ", " ") or ("for " + F.adts[ty]["path"]) in p:
            if "::deserialize::" in p:
                vis.setdefault(b["name"], []).append(b)
    # key string -> variant
    key2var = {}
    for b in vis.get("visit_str", []):
        if "__FieldVisitor" not in b["path"]:
            continue
        for n in walk.walk_body(b):
            if n.get("k") == "match":
                for arm in n["arms"]:
                    p = arm["pat"]
                    if p["k"] == "lit" and "lit" in p and p["lit"]["k"] == "str":
                        var = None
                        for x in walk.walk(arm["body"]):
                            if x.get("k") == "path" and x["res"].get("r") == "def" and "__field" in x["res"].get("text", ""):
                                var = x["res"]["text"].split("::")[-1]
                        key2var[p["lit"]["v"]] = var
    # variant -> local (visit_map) and local -> struct field (final literal)
    vm = [b for b in vis.get("visit_map", []) if "__Visitor" in b["path"]]
    vs = [b for b in vis.get("visit_seq", []) if "__Visitor" in b["path"]]
    if len(vm) != 1 or len(vs) != 1:
        chk.undecide("serde|%s|deserialize" % ty, "missing anchor: visit_map / visit_seq of the derived visitor", F.loc(de[0]["l"]))
        return
    var2local = {}
    for n in walk.walk_body(vm[0]):
        if n.get("k") == "match" and n.get("src") == "Normal":
            for arm in n["arms"]:
                p = arm["pat"]
                text = p.get("path", {}).get("text", "") if p["k"] in ("lit", "struct", "tuplestruct") else ""
                if "__field" in text:
                    var = text.split("::")[-1]
                    for x in walk.walk(arm["body"]):
                        if x.get("k") == "assign" and x["a"]["k"] == "path" and x["a"]["res"].get("r") == "local":
                            var2local[var] = x["a"]["res"]["name"]
    def final_literal(b):
        lits = [n for n in walk.walk_body(b) if n.get("k") == "struct" and F.adt_name(n["t"]) == ty]
        if len(lits) != 1:
            return None
        out = {}
        for f in lits[0]["fields"]:
            e = f["e"]
            if e["k"] == "path" and e["res"].get("r") == "local":
                out[f["name"]] = ("local", e["res"]["name"])
            elif e["k"] == "call" and (walk.callee_of(e) or {}).get("name") == "default":
                out[f["name"]] = ("default", None)
            else:
                out[f["name"]] = ("other", expr_s(e)[:60])
        return out
    lit_map = final_literal(vm[0])
    chain_ok = lit_map is not None
    chain = {}
    if chain_ok:
        for f in fields:
            src = lit_map.get(f)
            keys = [k for k, v in key2var.items() if var2local.get(v) == (src[1] if src else None)]
            chain[f] = keys
            if not (src and src[0] == "local" and keys == [f]):
                chain_ok = False
        for ph in phantoms:
            if lit_map.get(ph, ("", ""))[0] != "default":
                chain_ok = False
        defaulted = [k for k, v in lit_map.items() if v[0] != "local"]
        if sorted(defaulted) != sorted(phantoms):
            chain_ok = False
    chk.ob("serde|%s|deserialize|map" % ty, chain_ok,
           "each key maps to the field of the same name (key -> variant -> local -> struct field) and only the phantom marker is defaulted",
           body_loc(F, vm[0]), found={"key->variant": key2var, "variant->local": var2local, "literal": lit_map}, required={f: [f] for f in fields})
    chk.ob("serde|%s|deserialize|keys" % ty, sorted(key2var) == sorted(fields), "the accepted keys are exactly the data field names",
           body_loc(F, vm[0]), found=sorted(key2var), required=sorted(fields), nontrivial=False)
    # visit_seq: k-th element -> k-th data field
    order = []
    for st in vs[0]["body"]["b"]["stmts"] if vs[0]["body"]["k"] == "block" else []:
        if st["s"] == "let" and st["pat"]["k"] == "bind":
            has_next = any((walk.callee_of(x) or {}).get("name") == "next_element" for x in walk.walk(st["init"])) if st.get("init") else False
            if has_next:
                order.append(st["pat"]["name"])
    lit_seq = final_literal(vs[0])
    seq_ok = lit_seq is not None and [lit_seq.get(f, (None, None))[1] for f in fields] == order and len(order) == len(fields)
    chk.ob("serde|%s|deserialize|seq" % ty, seq_ok, "positional elements are read in declared field order into the fields of the same position",
           body_loc(F, vs[0]), found={"reads": order, "literal": lit_seq}, required=fields)


def module_of(F, ty):
    return F.adts[ty]["path"].split("::")[0]
