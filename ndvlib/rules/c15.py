"""C15 — spherical Bessel functions j0, j1, j2 are correct for every real argument."""
from .. import facts
from ..report import Check
from .. import series
from . import algebra
from .common import *

XR = Poly.var("x")
XA = ("v", "x", ())
MAX_ORDER = 4   # deepest total derivative order considered (base types carry <= 3; one more level of nesting, as in C14)
TOL = Fr(1, 2 ** 50)


def definition(n, x):
    s, c = apply_fn("sin", x), apply_fn("cos", x)
    if n == 0:
        return s * x.recip()
    if n == 1:
        return (s - x * c) * x.pow(E(-2))
    return ((Poly.const(3) - x * x) * s - x * c * 3) * x.pow(E(-3))


PARITY = {0: 1, 1: -1, 2: 1}


def run(tier):
    chk = Check("C15", tier, "proof",
                "for the dual impl (one macro body, analysed as instantiated for each of the 8 types) and the two float impls: the "
                "closed-form arm equals the definition (canonical rational term in x, sin x, cos x); the small-argument arm equals the "
                "Maclaurin truncation of the definition up to its own degree, and the truncation is adequate for every derivative order "
                "the type carries (exact rational bound on the k-th derivative error for |x| < eps); the guard is symmetric in the sign of "
                "the argument and both arms have the parity of the function; dual and float siblings agree arm by arm; in dual arithmetic "
                "both arms are the lifting of their real function (all parts, all presence patterns)",
                assumptions=["identities over the reals; rounding in the closed form near the switch is not decided",
                             "nested types are covered up to total derivative order %d" % MAX_ORDER],
                trusted_base=["rustc type checker and name resolution", "ndv-export", "ndvlib/poly.py", "Maclaurin tables computed in ndvlib/series.py"])
    F = facts.load("default")
    float_forms = {}
    for fl in ("f32", "f64"):
        imps = [i for i in F.impls_of("DualNum") if F.ty(i["self"]).get("n") == fl]
        if len(imps) != 1:
            chk.undecide("sph|%s" % fl, "missing anchor: impl DualNum<%s> for %s" % (fl, fl))
            continue
        for n in (0, 1, 2):
            body = F.impl_item(imps[0], "sph_j%d" % n)
            float_forms[(fl, n)] = analyse(chk, F, body, fl, n, orders=[0], label=fl)
    # the two float instances are the same macro body: same switch (the machine epsilon of their OWN type), same arms
    for n in (0, 1, 2):
        f32, f64 = float_forms.get(("f32", n)), float_forms.get(("f64", n))
        if f32 and f64 and "guard" in f32 and "guard" in f64:
            (l1, o1, r1), (l2, o2, r2) = f32["guard"], f64["guard"]
            chk.ob("sph|f32|j%d|sibling|guard" % n, o1 == o2 and equal(l1, l2) and equal(r1, r2),
                   "the f32 and f64 instances switch at the machine epsilon of their own float type", "src/lib.rs",
                   found="f32: %s %s %s" % (l1.show(), o1, r1.show()), required="f64: %s %s %s (EPS = epsilon of the instance's type)" % (l2.show(), o2, r2.show()))
    for ty in TYPES:
        imp = algebra.dualnum_impl(F, ty)
        for n in (0, 1, 2):
            body = F.impl_item(imp, "sph_j%d" % n) if imp else None
            if body is None:
                chk.undecide("sph|%s|j%d" % (ty, n), "missing anchor")
                continue
            forms = analyse(chk, F, body, ty, n, orders=list(range(0, ORDER[ty] + 1)), label=ty)
            # sibling agreement with the float implementation
            ff = float_forms.get(("f64", n))
            if forms and ff:
                if "guard" in forms and "guard" in ff:
                    (l1, o1, r1), (l2, o2, r2) = forms["guard"], ff["guard"]
                    chk.ob("sph|%s|j%d|sibling|guard" % (ty, n), o1 == o2 and equal(l1, l2) and equal(r1, r2),
                           "dual and plain-float implementation switch between series and closed form under the same condition "
                           "(machine epsilon of the float type)", body_loc(F, body),
                           found="%s %s %s" % (l1.show(), o1, r1.show()), required="%s %s %s (float instance)" % (l2.show(), o2, r2.show()))
                for arm in ("series", "closed"):
                    if arm in forms and arm in ff:
                        ok = equal(forms[arm], ff[arm])
                        chk.ob("sph|%s|j%d|sibling|%s" % (ty, n, arm), ok,
                               "the real part of the dual result agrees with the plain-float implementation (same canonical arm)",
                               body_loc(F, body), found=forms[arm].show(), required=ff[arm].show())
            lifting(chk, F, ty, n, body)
        # one nesting level deeper (total order up to MAX_ORDER): adequacy of the series for the extra orders
    nested(chk, F)
    # both arms are built from + - * / between dual numbers and with float constants; for nested types the float forms act on the inner
    # dual numbers in place (`self.re /= c`): every generated operator form is the truncated-algebra operation (rule set of C08)
    from . import c08
    for ty in TYPES:
        c08.check_type(chk, F, ty, thorough=False)
    # the Python classes expose the same functions: their sph_j* methods forward to the Rust item of the same name
    from . import c17
    c17.python_wrappers(chk, {"sph_j0", "sph_j1", "sph_j2"})
    chk.floor("sph bodies", chk.analysed.get("sph bodies", 0), 30)
    return chk.finish()


def scalar_paths(F, body, extra=None):
    out = []

    def thunk(ctx):
        it = Interp(F, DOMK, ctx=ctx)
        it.scalar_mode = True
        return it.call_body(body, [Sc(XR)] + (extra or []))
    for ctx, val in explore(thunk):
        out.append((ctx, val))
    return out


def classify_guard(ctx):
    """the single guard of the decision tree:  returns (poly compared, op, bound poly, decision) or None"""
    free = [(k, d, b) for (k, d, b, forced) in ctx.trace]
    if len(free) != 1:
        return None
    k, d, b = free[0]
    if k[0] != "cmp":
        return None
    from .common import _poly_from_key_cache as cache
    return oriented(k, b)


def oriented(k, b):
    """a recorded comparison with the side that mentions the argument on the left and the bound on the right
    (`eps > |x|` is recorded as not(eps <= |x|) and is returned as |x| < eps)"""
    from .common import _poly_from_key_cache as cache
    lhs, op, rhs = cache.get(k[2]), k[1], cache.get(k[3])
    if lhs is not None and rhs is not None and op in ("<", "<="):
        lv = any(a[0] == "v" for a in all_var_atoms(lhs))
        rv = any(a[0] == "v" for a in all_var_atoms(rhs))
        if rv and not lv:
            return rhs, {"<": "<=", "<=": "<"}[op], lhs, not b
    return lhs, op, rhs, b


def all_var_atoms(p, out=None):
    out = set() if out is None else out
    for a in p.atoms():
        if a[0] in ("v", "c"):
            out.add(a)
        elif a[0] == "f":
            all_var_atoms(a[2], out)
        elif a[0] == "u":
            all_var_atoms(a[1], out)
    return out


def analyse(chk, F, body, who, n, orders, label):
    """R-level analysis of one sph_jN body; returns {'series': Poly, 'closed': Poly} (canonical arms)"""
    if body is None:
        chk.undecide("sph|%s|j%d" % (who, n), "missing anchor")
        return None
    chk.count("sph bodies")
    key0 = "sph|%s|j%d" % (who, n)
    loc = body_loc(F, body)
    try:
        paths = scalar_paths(F, body)
    except Unsupported as ex:
        chk.undecide(key0, "unsupported: %s" % ex, loc)
        return None
    forms = {}
    guard = None
    for ctx, val in paths:
        g = classify_guard(ctx)
        v = unref(val)
        if g is None or not isinstance(v, Sc):
            chk.ob(key0 + "|shape", False, "one comparison of the argument against the switch selects series or closed form", loc,
                   found=path_descr(ctx))
            return None
        lhs, op, rhs, dec = g
        guard = (lhs, op, rhs)
        # `lhs < rhs` true  => small-argument arm
        small = dec if op in ("<", "<=") else None
        if small is None:
            chk.ob(key0 + "|shape", False, "the switch is a `<` comparison", loc, found=path_descr(ctx))
            return None
        forms["series" if small else "closed"] = v.v
    if set(forms) != {"series", "closed"}:
        chk.ob(key0 + "|shape", False, "both arms exist", loc, found=sorted(forms))
        return None
    lhs, op, rhs = guard
    # ---- guard symmetric in the sign of the argument
    mirrored = lhs.subst(lambda a: -XR if a == XA else None)
    sym = equal(mirrored, lhs)
    chk.ob(key0 + "|guard-symmetric", sym, "the switch between series and closed form is symmetric in the sign of the argument "
           "(the function has a parity; negative arguments must not be routed to the series)", loc,
           found="%s %s %s" % (lhs.show(), op, rhs.show()), required="|x| %s bound" % op)
    h = eval_poly(rhs, {("c", "EPS"): EPS_VALUE, ("c", "F::MIN_POSITIVE"): Fr(1, 2 ** 1022), ("c", "EPS_f64"): Fr(1, 2 ** 52),
                        ("c", "EPS_f32"): Fr(1, 2 ** 23)})
    forms["guard"] = guard
    # ---- closed form == definition
    want = definition(n, XR)
    chk.ob(key0 + "|closed-form", equal(forms["closed"], want), "the closed-form arm is the definition of j%d" % n, loc,
           found=forms["closed"].show(), required=want.show())
    # ---- parity of both arms
    for arm in ("series", "closed"):
        p = forms[arm]
        m = p.subst(lambda a: -XR if a == XA else None)
        okp = equal(m, p.scale(PARITY[n]))
        chk.ob(key0 + "|parity|" + arm, okp, "the %s arm is %s in the argument" % (arm, "even" if PARITY[n] > 0 else "odd"), loc,
               found=p.show(), nontrivial=False)
    # ---- series == Maclaurin truncation, adequate for every derivative order carried
    code = series.poly_coeffs(forms["series"], XA)
    true = series.sph_j(n)
    if code is None:
        chk.ob(key0 + "|series", False, "the small-argument arm is a polynomial in the argument", loc, found=forms["series"].show())
        return forms
    d = len(code) - 1
    okc = all(code[i] == true[i] for i in range(len(code)))
    chk.ob(key0 + "|series-coefficients", okc, "the small-argument arm coincides with the Maclaurin polynomial of j%d up to its own degree %d" % (n, d),
           loc, found=[str(c) for c in code], required=[str(c) for c in true[:len(code)]])
    if h is None:
        chk.undecide(key0 + "|series-adequacy", "switch bound is not a constant", loc)
        return forms
    for k in orders:
        bound = series.derivative_error_bound(code, true, k, h)
        chk.ob(key0 + "|series-adequacy|order=%d" % k, bound <= TOL,
               "for |x| < %s the %s derivative of the series differs from that of j%d by at most 2^-50" % (float(h), ordinal(k), n), loc,
               found="error bound %.3e (degree-%d series; Maclaurin coefficient of x^%d is %s)" % (float(bound), d, k, true[k] if k < len(true) else 0),
               required="<= %.3e" % float(TOL))
    return forms


def ordinal(k):
    return {0: "value / 0th", 1: "1st", 2: "2nd", 3: "3rd"}.get(k, "%dth" % k)


def nested(chk, F):
    """one more level of nesting: the same generic body is instantiated over an inner dual type; the series must then be adequate
    for the sum of the orders (<= MAX_ORDER)"""
    ty = "Dual3"
    imp = algebra.dualnum_impl(F, ty)
    for n in (0, 1, 2):
        body = F.impl_item(imp, "sph_j%d" % n) if imp else None
        if body is None:
            continue
        try:
            paths = scalar_paths(F, body)
        except Unsupported:
            continue
        for ctx, val in paths:
            g = classify_guard(ctx)
            if g is None:
                continue
            lhs, op, rhs, dec = g
            if not dec:
                continue
            code = series.poly_coeffs(unref(val).v, XA)
            h = eval_poly(rhs, {("c", "EPS"): EPS_VALUE})
            if code is None or h is None:
                continue
            true = series.sph_j(n)
            k = MAX_ORDER
            bound = series.derivative_error_bound(code, true, k, h)
            chk.ob("sph|nested|j%d|series-adequacy|order=%d" % (n, k), bound <= TOL,
                   "nested types of total order %d: the %dth derivative of the series is that of j%d" % (k, k, n), body_loc(F, body),
                   found="error bound %.3e (degree-%d series, Maclaurin coefficient of x^%d is %s)" % (float(bound), len(code) - 1, k, true[k]),
                   required="<= %.3e" % float(TOL))


def lifting(chk, F, ty, n, body):
    """A-level: along both arms every part is the formal derivative of the arm's real function"""
    X = Poly.var("self.re")
    pats = presence_patterns(ty)
    for pa in ([pats[-1], pats[0]] if len(pats) > 1 else pats):
        sp = Spec(ty, absent_set("self", pa))
        key0 = "sph|%s|j%d|lifting%s" % (ty, n, "" if pa is None else "|presence=" + pres_tag(pa))
        try:
            paths = run_paths(F, body, lambda: [sp.operand("self", pa)])
        except Unsupported as ex:
            chk.undecide(key0, "unsupported: %s" % ex, body_loc(F, body))
            continue
        for ctx, val, it, args in paths:
            free = [(k, d, b) for (k, d, b, forced) in ctx.trace]
            if len(free) != 1 or free[0][0][0] != "cmp":
                chk.ob(key0 + "|shape", False, "one guard on the real part", body_loc(F, body), found=path_descr(ctx))
                continue
            _, gop, _, small = oriented(free[0][0], free[0][2])
            if gop not in ("<", "<="):
                chk.ob(key0 + "|shape", False, "the switch is a `<` comparison", body_loc(F, body), found=path_descr(ctx))
                continue
            if small:
                # the series arm: lifting of the polynomial the R-level analysis extracted
                sc = scalar_paths(F, body)
                polys = [unref(v).v for c, v in sc if len(c.trace) == 1 and oriented(c.trace[0][0], c.trace[0][2])[3]]
                base = polys[0].subst(lambda a: X if a == XA else None) if polys else None
            else:
                base = definition(n, X)
            if base is None:
                continue
            compare_parts(chk, key0 + ("|series" if small else "|closed"), "sph_j%d in dual arithmetic is the lifting of its real arm" % n,
                          body_loc(F, body), sp, val, sp.spec_of_real(base))
