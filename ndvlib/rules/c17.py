"""C17 — Python bindings are a transparent view of the Rust operations (python configuration)."""
import re

from .. import facts
from ..report import Check
from .. import walk
from ..hirpp import expr_s
from .common import *
from ..spec import GRADINGS
from ..interp import Res

# Python method -> Rust DualNum item (numpy spellings; DESIGN A.6)
METHODS = {
    "recip": "recip", "powi": "powi", "powf": "powf", "powd": "powd", "sqrt": "sqrt", "cbrt": "cbrt", "exp": "exp", "exp2": "exp2",
    "expm1": "exp_m1", "log": "ln", "log_base": "log", "log2": "log2", "log10": "log10", "log1p": "ln_1p", "sin": "sin", "cos": "cos",
    "tan": "tan", "arcsin": "asin", "arccos": "acos", "arctan": "atan", "sinh": "sinh", "cosh": "cosh", "tanh": "tanh",
    "arcsinh": "asinh", "arccosh": "acosh", "arctanh": "atanh", "sph_j0": "sph_j0", "sph_j1": "sph_j1", "sph_j2": "sph_j2",
    "mul_add": "mul_add",
}
DUNDER = {"__add__": "+", "__sub__": "-", "__mul__": "*", "__truediv__": "/"}
DRIVERS = ["first_derivative", "gradient", "jacobian", "second_derivative", "hessian", "third_derivative",
           "second_partial_derivative", "partial_hessian", "third_partial_derivative", "third_partial_derivative_vec"]


def peel(e):
    """strip blocks without statements, references, `.into()`, `.clone()`, Ok(..) wrappers"""
    while True:
        if e["k"] == "block" and not e["b"]["stmts"] and e["b"].get("tail"):
            e = e["b"]["tail"]
        elif e["k"] == "addr":
            e = e["a"]
        elif e["k"] == "mcall" and e["m"] in ("into", "clone") and not e["args"]:
            e = e["recv"]
        elif e["k"] == "call" and (walk.callee_of(e) or {}).get("path", "").endswith("::Ok") and len(e["args"]) == 1:
            e = e["args"][0]
        else:
            return e


def is_self0(e):
    e = peel(e)
    return e["k"] == "field" and e["name"] == "0" and e["a"]["k"] == "path" and e["a"]["res"].get("name") == "self"


def conv_peel(e):
    """strip value-preserving conversions around an argument: x.into(), x.clone(), T::from(x), Into::into(x)"""
    while True:
        e = peel(e)
        if e["k"] == "mcall" and e["m"] in ("into", "clone", "to_owned") and not e["args"]:
            e = e["recv"]
        elif e["k"] == "call" and len(e["args"]) == 1 and (walk.callee_of(e) or {}).get("name") in ("from", "into"):
            e = e["args"][0]
        else:
            return e


def local_name(e, allow_field0=True):
    e = peel(e)
    if allow_field0 and e["k"] == "field" and e["name"] == "0":
        e = peel(e["a"])
    if e["k"] == "path" and e["res"].get("r") == "local":
        return e["res"]["name"]
    return None


def py_classes(F):
    """class name -> (inner data type string, impl bodies by method name)"""
    out = {}
    for name, adt in F.adts.items():
        if not name.startswith("Py") or name.startswith("Pyo3"):
            continue
        if len(adt["fields"]) != 1:
            continue
        out[name] = {"inner": F.ty_s(adt["fields"][0]["t"]), "inner_t": adt["fields"][0]["t"], "methods": {}}
    for b in F.bodies.values():
        imp = b.get("_impl")
        if not imp or imp.get("trait"):
            continue
        cn = F.adt_name(imp["self"])
        if cn in out and b.get("name") and not b["name"].startswith("__pymethod") and not b["name"].startswith("__pyo3"):
            out[cn]["methods"].setdefault(b["name"], []).append(b)
    return out


def run(tier):
    chk = Check("C17", tier, "other",
                "for each of the 56 Python classes: every named method's body is exactly `self.0.<mapped Rust item>(args in order).into()` "
                "(table of numpy spellings), no other arithmetic; __add__/__sub__/__mul__/__truediv__ compute `self.0 OP r` with the dunder's own "
                "operator and self on the left in every extract branch; reflected operators evaluate to the canonical form of `lhs OP self`; "
                "__pow__ tries i32->powi, f64->powf, Self->powd in that order; __neg__, __repr__, from_re, value forward; getters return the "
                "named parts; #[new] passes parameters positionally; drivers use one length N for the array extraction, the SVector type and the "
                "Python class in every arm, call the try_ function of their own name and convert matrices by rows; every #[pyfunction] and every "
                "constructible class is registered in the module",
                assumptions=["behaviour of the embedded interpreter and of numpy object arrays at run time is not decided",
                             "the Rust operations themselves are C01-C09"],
                trusted_base=["rustc expansion + type checker (pyo3 macro output as compiled)", "ndv-export", "structural walkers in c17.py",
                              "name table DESIGN A.6"])
    F = facts.load("python")
    classes = py_classes(F)
    chk.count("python classes", len(classes))
    for cn, info in sorted(classes.items()):
        one_class(chk, F, cn, info)
    drivers(chk, F, classes)
    registration(chk, F, classes)
    class_dimensions(chk, F, classes)
    storage_columns(chk, F)
    chk.floor("python classes", len(classes), 56)
    chk.floor("forwarding methods", chk.analysed.get("forwarding methods", 0), 56 * 30)
    chk.floor("operator dunders", chk.analysed.get("operator dunders", 0), 56 * 4)
    return chk.finish()


def python_wrappers(chk, rust_items):
    """the Python classes are number types too: their methods for the given Rust items forward to the item of the same meaning
    (python configuration; used by the function properties C01 / C09 / C15 for their own methods)"""
    try:
        F = facts.load("python")
    except facts.BuildFailed as ex:
        chk.undecide("python-wrappers", "python configuration does not build: %s" % ex)
        return
    classes = py_classes(F)
    only = {py for py, rust in METHODS.items() if rust in rust_items}
    n0 = chk.analysed.get("forwarding methods", 0)
    for cn, info in sorted(classes.items()):
        method_forwarding(chk, F, cn, info, only)
    chk.floor("forwarding methods", chk.analysed.get("forwarding methods", 0) - n0, 56 * len(only))


def one_class(chk, F, cn, info):
    ms = info["methods"]
    method_forwarding(chk, F, cn, info, None)
    one_class_rest(chk, F, cn, info)


def method_forwarding(chk, F, cn, info, only):
    ms = info["methods"]
    for py, rust in METHODS.items():
        if only is not None and py not in only:
            continue
        bs = ms.get(py, [])
        key = "method|%s|%s" % (cn, py)
        if len(bs) != 1:
            chk.undecide(key, "missing anchor: %s::%s" % (cn, py))
            continue
        b = bs[0]
        chk.count("forwarding methods")
        e = peel(b["body"])
        ok = e["k"] == "mcall" and e["m"] == rust and is_self0(e["recv"])
        found = expr_s(b["body"])[:200]
        if ok:
            params = [p.get("name") for p in b["params"][1:]]
            args = [local_name(a) for a in e["args"]]
            ok = args == params
            c = e.get("callee") or {}
            ok = ok and (c.get("trait", "").endswith("DualNum") or "DualNum" in c.get("path", ""))
        chk.ob(key, ok, "Python %s forwards to the Rust item %s on self.0 with the arguments in order and nothing else" % (py, rust),
               body_loc(F, b), found=found, required="self.0.%s(%s).into()" % (rust, ", ".join(p.get("name", "?") for p in b["params"][1:])),
               nontrivial=(py != rust))


def one_class_rest(chk, F, cn, info):
    ms = info["methods"]
    # sin_cos
    bs = ms.get("sin_cos", [])
    if len(bs) == 1:
        b = bs[0]
        calls = [n for n in walk.walk_body(b) if n.get("k") == "mcall" and n["m"] not in ("into", "clone")]
        tail = b["body"]["b"].get("tail") if b["body"]["k"] == "block" else None
        ok = len(calls) == 1 and calls[0]["m"] == "sin_cos" and is_self0(calls[0]["recv"])
        if ok and tail is not None and tail["k"] == "tup":
            st = b["body"]["b"]["stmts"][0]
            names = [p.get("name") for p in st["pat"].get("pats", [])]
            ok = [local_name(x, False) for x in tail["es"]] == names and len(names) == 2
        else:
            ok = False
        chk.ob("method|%s|sin_cos" % cn, ok, "sin_cos returns (sin, cos) of self.0 in that order", body_loc(F, b), found=expr_s(b["body"])[:200])
        chk.count("forwarding methods")
    else:
        chk.undecide("method|%s|sin_cos" % cn, "missing anchor")
    # from_re / value
    for nm, want in (("from_re", "from_re"), ("get_value", None)):
        bs = ms.get(nm, [])
        if len(bs) != 1:
            chk.undecide("method|%s|%s" % (cn, nm), "missing anchor")
            continue
        b = bs[0]
        e = peel(b["body"])
        if nm == "from_re":
            ok = e["k"] == "call" and (walk.callee_of(e) or {}).get("name") == "from_re" and local_name(e["args"][0], False) == b["params"][0].get("name")
        else:
            ok = e["k"] == "field" and e["name"] == "re" and is_self0(e["a"])
        chk.ob("method|%s|%s" % (cn, nm), ok, "%s is the real-part constructor / accessor" % nm, body_loc(F, b), found=expr_s(b["body"])[:160],
               nontrivial=False)
    # binary dunders
    for dn, op in DUNDER.items():
        bs = ms.get(dn, [])
        key = "op|%s|%s" % (cn, dn)
        if len(bs) != 1:
            chk.undecide(key, "missing anchor")
            continue
        b = bs[0]
        chk.count("operator dunders")
        bins = []
        for n in walk.walk_body(b):
            if n.get("k") == "bin" and n.get("callee") and (n["callee"].get("trait") or "").startswith("std::ops::") and \
                    F.ty_s(n["t"]) == info["inner"]:
                bins.append(n)
        bad = []
        for n in bins:
            if n["op"] != op:
                bad.append("operator %s in %s" % (n["op"], dn))
            if not is_self0(n["a"]):
                bad.append("left operand is not self.0: %s" % expr_s(n["a"])[:60])
            rn = root_local(n["b"])
            if rn in (None, "self"):
                bad.append("right operand is not the extracted value: %s" % expr_s(n["b"])[:60])
        ok = not bad and len(bins) >= 4
        chk.ob(key, ok, "%s computes self.0 %s r (own operator, self on the left) in every extract branch" % (dn, op), body_loc(F, b),
               found="; ".join(bad) or "%d branches" % len(bins), required=">= 4 branches of self.0 %s r" % op)
    # reflected operators, negation: canonical forms
    inner_ty = F.adt_name(info["inner_t"])
    if inner_ty in GRADINGS:
        sp = Spec(inner_ty)
        A, Cc = Poly.var("a.re"), Poly.var("c")
        for dn, base in (("__radd__", Cc + A), ("__rsub__", Cc - A), ("__rmul__", Cc * A), ("__rtruediv__", Cc * A.recip()), ("__neg__", -A)):
            bs = ms.get(dn, [])
            key = "op|%s|%s" % (cn, dn)
            if len(bs) != 1:
                chk.undecide(key, "missing anchor")
                continue
            b = bs[0]
            chk.count("reflected operators")
            try:
                it = Interp(F, DOMK)
                args = [Rec(cn, {"0": sp.operand("a")})] + ([Sc(Cc)] if dn != "__neg__" else [])
                r = unref(it.call_body(b, args))
                if isinstance(r, Res) and r.ok:
                    r = unref(r.v)
                inner = unref(r.f["0"]) if isinstance(r, Rec) and r.adt == cn else r
                compare_parts(chk, key, "%s is lhs OP self with the operands in the reflected order" % dn, body_loc(F, b), sp, inner,
                              sp.spec_of_real(base))
            except Unsupported as ex:
                chk.undecide(key, "unsupported: %s" % ex, body_loc(F, b))
    # __pow__
    bs = ms.get("__pow__", [])
    if len(bs) == 1:
        b = bs[0]
        seq = []
        for n in walk.walk_body(b):
            if n.get("k") == "mcall" and n["m"] == "extract":
                c = n.get("callee") or {}
                targs = [F.ty_s(t) for t in (c.get("args") or []) if isinstance(t, int)]
                seq.append(("extract", targs[-1] if targs else "?"))
            elif n.get("k") == "mcall" and n["m"] in ("powi", "powf", "powd") and is_self0(n["recv"]):
                seq.append((n["m"], local_name(n["args"][0])))
        want_kinds = ["extract", "powi", "extract", "powf", "extract", "powd"]
        ok = [s[0] for s in seq] == want_kinds
        if ok:
            ok = seq[0][1] == "i32" and seq[2][1] == "f64" and seq[4][1].endswith(cn)
        chk.ob("op|%s|__pow__" % cn, ok, "__pow__ tries i32 -> powi, then f64 -> powf, then Self -> powd", body_loc(F, b), found=seq,
               required="extract<i32>, powi, extract<f64>, powf, extract<Self>, powd")
    else:
        chk.undecide("op|%s|__pow__" % cn, "missing anchor")
    # constructor
    for b in ms.get("new", []):
        found = expr_s(b["body"])[:200]
        news = [n for n in walk.walk_body(b) if n.get("k") == "call" and (walk.callee_of(n) or {}).get("name") == "new"
                and (walk.callee_of(n) or {}).get("local")]
        others = [n for n in walk.walk_body(b) if n.get("k") in ("bin", "un") or (n.get("k") == "mcall" and n["m"] not in ("into", "clone"))]
        ok = len(news) == 1 and not others
        if ok:
            names = [local_name(conv_peel(a), False) for a in news[0]["args"]]
            ok = names == [p.get("name") for p in b["params"]]
        chk.ob("ctor|%s" % cn, ok, "#[new] passes its parameters positionally to the Rust constructor", body_loc(F, b), found=found)
        chk.count("constructors")
    # getters: get_<x> returns parts of self.0
    for nm, bs in ms.items():
        if not nm.startswith("get_") or nm == "get_value":
            continue
        for b in bs:
            fields = []
            for n in walk.walk_body(b):
                if n.get("k") == "field" and is_self0(n["a"]):
                    fields.append(n["name"])
                elif n.get("k") == "field" and n.get("name") == "0" and is_self0(n):
                    fields.append("self.0")
            chk.count("getters")
            order_of = {"get_first_derivative": 1, "get_second_derivative": 2, "get_third_derivative": 3}.get(nm)
            inner_ty = F.adt_name(info["inner_t"])
            direct = [x for x in fields if x != "self.0"]
            if direct and order_of and inner_ty in GRADINGS:
                # the parts of total order k in declared order, each read exactly once, in that order
                want = [f for f, pd in GRADINGS[inner_ty]["parts"] if len(pd) == order_of]
                ordered = []
                for n in walk.walk_body(b):
                    if n.get("k") == "field" and is_self0(n["a"]) and n["name"] not in ordered:
                        ordered.append(n["name"])
                reads = [n["name"] for n in walk.walk_body(b) if n.get("k") == "field" and is_self0(n["a"])]
                ok = ordered == want and len(reads) == len(want)
                chk.ob("getter|%s|%s" % (cn, nm), ok, "the getter returns the parts of derivative order %d of the wrapped number, each once, in "
                       "declared order" % order_of, body_loc(F, b), found=reads, required=want)
            elif fields:
                chk.ob("getter|%s|%s" % (cn, nm), True, "getter reads parts of self.0", body_loc(F, b), found=sorted(set(fields)), nontrivial=False)
            else:
                chk.undecide("getter|%s|%s" % (cn, nm), "unsupported: getter does not read self.0 directly", body_loc(F, b))


def is_dual_vector(F, ti):
    t = F.ty(ti)
    if t["k"] != "adt" or not t["n"].endswith("Matrix"):
        return False
    a0 = t["a"][0] if t["a"] else None
    return isinstance(a0, int) and F.ty(a0)["k"] == "adt" and F.ty(a0).get("local", False)


def root_local(e):
    e = peel(e)
    while True:
        if e["k"] in ("field",):
            e = peel(e["a"])
        elif e["k"] == "mcall":
            e = peel(e["recv"])
        elif e["k"] == "un":
            e = peel(e["a"])
        else:
            break
    if e["k"] == "path" and e["res"].get("r") == "local":
        return e["res"]["name"]
    return None


CONST_RE = re.compile(r"Const<(\d+)>")
ARR_RE = re.compile(r"\[f64; (\d+)\]")


def drivers(chk, F, classes):
    fns = {}
    for b in F.bodies.values():
        if b["dk"] == "Fn" and b["path"].startswith("python::") and b.get("name") in DRIVERS:
            fns.setdefault(b["name"], []).append(b)
    for name in DRIVERS:
        bs = fns.get(name, [])
        if len(bs) != 1:
            chk.undecide("driver|%s" % name, "missing anchor: #[pyfunction] %s" % name)
            continue
        b = bs[0]
        chk.count("python drivers")
        # (a) calls the try_ function of its own name
        called = set()
        for n in walk.walk_body(b):
            c = walk.callee_of(n)
            if n.get("k") == "call" and c and c.get("local") and (c.get("name") or "").startswith("try_"):
                called.add(c["name"])
        chk.ob("driver|%s|callee" % name, called == {"try_" + name}, "the Python driver calls the Rust try_ function of its own name",
               body_loc(F, b), found=sorted(called), required=["try_" + name])
        # (b) per length-dispatched arm: the array length(s), the SVector parameter types and the class agree
        arms = 0
        arm_lens = []
        bad = []
        for n in walk.walk_body(b):
            if n.get("k") != "if" or n["c"]["k"] != "let":
                continue
            init = n["c"]["init"]
            exts = [init] if init["k"] == "mcall" else (init["es"] if init["k"] == "tup" else [])
            lens = []
            for x in exts:
                if not (x["k"] == "mcall" and x["m"] == "extract"):
                    lens = None
                    break
                c = x.get("callee") or {}
                targs = [F.ty_s(t) for t in (c.get("args") or []) if isinstance(t, int)]
                m = ARR_RE.search(targs[-1] if targs else "")
                if not m:
                    lens = None
                    break
                lens.append(int(m.group(1)))
            if not lens:
                continue
            arms += 1
            arm_lens.append(tuple(lens))
            then = n["then"]
            for x in walk.walk(then):
                if x.get("k") == "closure" and all(is_dual_vector(F, p["t"]) for p in x["params"]) and x["params"]:
                    for i, p in enumerate(x["params"]):
                        dims = [int(d) for d in CONST_RE.findall(F.ty_s(p["t"])) if True]
                        # Matrix<Elem<.., Const<..>..>, Const<rows>, Const<1>, ArrayStorage<.., rows, 1>>: element dims first
                        if not dims:
                            continue
                        want_elem = lens
                        want_rows = lens[i] if i < len(lens) else None
                        if dims[:len(lens)] != want_elem:
                            bad.append("arm %s: closure parameter %d has element dimensions %s" % (lens, i, dims[:len(lens)]))
                        if want_rows is not None and len(dims) > len(lens) and dims[len(lens)] != want_rows:
                            bad.append("arm %s: closure parameter %d is a vector of length %d" % (lens, i, dims[len(lens)]))
                if x.get("k") == "call":
                    cc = walk.callee_of(x) or {}
                    if cc.get("name") == "from" and F.adt_name(x["t"]) in classes:
                        cn = F.adt_name(x["t"])
                        cd = [int(d) for d in CONST_RE.findall(classes[cn]["inner"])]
                        if cd != lens:
                            bad.append("arm %s uses class %s over %s" % (lens, cn, classes[cn]["inner"]))
                if x.get("k") == "mcall" and x["m"] == "extract":
                    c = x.get("callee") or {}
                    for t in (c.get("args") or []):
                        if isinstance(t, int):
                            tn = F.adt_name(t)
                            inner_list = F.ty(t).get("a", []) if F.ty(t)["k"] == "adt" else []
                            cands = [tn] + [F.adt_name(a) for a in inner_list if isinstance(a, int)]
                            for cn in cands:
                                if cn in classes:
                                    cd = [int(d) for d in CONST_RE.findall(classes[cn]["inner"])]
                                    if cd and cd != lens:
                                        bad.append("arm %s extracts results as %s over %s" % (lens, cn, classes[cn]["inner"]))
        if arms and arm_lens:
            dup = sorted({l for l in arm_lens if arm_lens.count(l) > 1})
            firsts = sorted({l[0] for l in arm_lens})
            gaps = [k for k in range(1, max(firsts) + 1) if k not in firsts] if firsts else []
            chk.ob("driver|%s|dispatch" % name, not dup and not gaps, "the length dispatch has one arm per size: no size twice (the second arm "
                   "would be unreachable) and no hole below the largest size", body_loc(F, b),
                   found=("duplicate arms for %s; " % dup if dup else "") + ("no arm for size %s" % gaps if gaps else "") or "%d distinct sizes" % len(set(arm_lens)))
        if arms:
            chk.ob("driver|%s|arms" % name, not bad, "every length-dispatched arm uses its own length(s) for the array, the SVector types and the class",
                   body_loc(F, b), found="; ".join(sorted(set(bad))[:6]) or "%d arms consistent" % arms)
            chk.count("driver arms", arms)
        # (d) the driver's own parameters reach the Rust driver in declaration order (by name: the length-dispatch shadows them),
        #     and every closure hands its parameters to the Python callable in its own order
        own = [p_.get("name") for p_ in b["params"] if p_.get("k") == "bind"]
        own = [x for x in own if x not in ("py", "_py")]
        order_bad, n_calls = [], 0
        for n in walk.walk_body(b):
            c = walk.callee_of(n)
            if n.get("k") == "call" and c and c.get("local") and c.get("name") == "try_" + name:
                n_calls += 1
                rest = own[1:]
                for q, a in enumerate(n["args"][1:]):
                    names = {x["res"].get("name") for x in walk.walk(a) if x.get("k") == "path" and x["res"].get("r") == "local"} & set(rest)
                    if q < len(rest) and names and names != {rest[q]}:
                        order_bad.append("argument %d of try_%s is built from %s, the driver's parameter %d is `%s`" % (q + 1, name, sorted(names), q + 1, rest[q]))
                if len(n["args"]) - 1 != len(rest):
                    order_bad.append("try_%s receives %d arguments for %d driver parameters" % (name, len(n["args"]) - 1, len(rest)))
            if n.get("k") == "closure" and n.get("params"):
                pn = [p_.get("name") for p_ in n["params"] if p_.get("k") == "bind"]
                for m_ in walk.walk(n["body"]):
                    if m_.get("k") == "mcall" and m_["m"] == "call1" and m_["args"] and m_["args"][0]["k"] == "tup" and len(pn) == len(n["params"]):
                        got = []
                        for el in m_["args"][0]["es"]:
                            nm = [x["res"].get("name") for x in walk.walk(el) if x.get("k") == "path" and x["res"].get("r") == "local" and x["res"].get("name") in pn]
                            got.append(nm[0] if len(set(nm)) == 1 else None)
                        if len(got) == len(pn) and None not in got and got != pn and sorted(got) == sorted(pn):
                            order_bad.append("closure parameters %s are passed to the Python callable as %s" % (pn, got))
        chk.ob("driver|%s|argument-order" % name, not order_bad and n_calls >= 1,
               "the driver's parameters reach the Rust driver, and the closure's parameters the Python callable, in declaration order",
               body_loc(F, b), found="; ".join(sorted(set(order_bad))[:4]) or "%d call(s) in order" % n_calls)
        # (e) result tuples are passed on component by component: a closure `|(a, b, c)| (.. a .., .. b .., .. c ..)` uses its i-th binding in
        #     the i-th component and nowhere else
        tup_bad, n_tup = [], 0
        for n in walk.walk_body(b):
            if n.get("k") != "closure" or len(n.get("params", [])) != 1 or n["params"][0].get("k") != "tuple":
                continue
            binds = [q.get("name") for q in n["params"][0]["pats"] if q.get("k") == "bind"]
            if len(binds) != len(n["params"][0]["pats"]) or len(binds) < 2:
                continue
            body_e = n["body"]
            tail = body_e
            while tail.get("k") == "block":
                tail = tail["b"].get("tail") or {}
            if tail.get("k") != "tup" or len(tail["es"]) != len(binds):
                continue
            # bindings may be re-bound by `let x = f(x)` statements of the same name: names are what is compared
            n_tup += 1
            for i_, el in enumerate(tail["es"]):
                used = {x["res"].get("name") for x in walk.walk(el) if x.get("k") == "path" and x["res"].get("r") == "local"} & set(binds)
                if used and used != {binds[i_]}:
                    tup_bad.append("component %d of the returned tuple is built from %s (expected `%s`)" % (i_ + 1, sorted(used), binds[i_]))
        if n_tup:
            chk.ob("driver|%s|result-order" % name, not tup_bad, "the components of the Rust driver's result are passed to Python in the same order",
                   body_loc(F, b), found="; ".join(sorted(set(tup_bad))[:3]) or "%d result closures in order" % n_tup)
        # (c) matrices are converted by rows
        its = {n["m"] for n in walk.walk_body(b) if n.get("k") == "mcall" and n["m"] in ("row_iter", "column_iter")}
        if name in ("jacobian", "hessian", "partial_hessian"):
            if not its:
                chk.undecide("driver|%s|rows" % name, "unsupported: the matrix result is not converted with row_iter / column_iter here", body_loc(F, b))
            else:
                chk.ob("driver|%s|rows" % name, its == {"row_iter"}, "matrix results are converted row by row (no transposition)", body_loc(F, b),
                       found=sorted(its), required=["row_iter"], nontrivial=False)


def storage_columns(chk, F):
    """vectors are handed to Python as `m.data.0[0]` — the single column of the storage: any other constant index reads past it"""
    n_, bad = 0, []
    for b in F.bodies.values():
        if not b["path"].startswith("python::"):
            continue
        for n in walk.walk_body(b):
            if n.get("k") != "index":
                continue
            base = n["a"]
            while base.get("k") in ("addr",) or (base.get("k") == "un" and base.get("op") == "deref"):
                base = base["a"]
            if base.get("k") == "field" and base.get("name") == "0" and base["a"].get("k") == "field" and base["a"].get("name") == "data":
                idx = n["b"]
                n_ += 1
                if not (idx.get("k") == "lit" and idx["lit"].get("v") == "0"):
                    bad.append("%s: %s" % (F.loc(n["l"]), expr_s(n)[:60]))
    chk.ob("storage|single-column", not bad, "a vector part is converted from the single column `data.0[0]` of its storage", "src/python",
           found=sorted(set(bad))[:3] or "%d conversions read column 0" % n_, nontrivial=False)
    chk.count("vector storage conversions", n_)


def class_dimensions(chk, F, classes):
    """a class named ..._<m>[_<n>] wraps the number type of exactly these static dimensions"""
    n_ = 0
    for cn, info in sorted(classes.items()):
        toks = re.findall(r"_(\d+)", cn)
        dims = [int(d) for d in CONST_RE.findall(info["inner"])]
        if not dims or len(toks) < len(dims) or not re.search(r"_\d+$", cn):
            continue
        named = [int(x) for x in toks[-len(dims):]]      # the trailing numbers (a float width such as _64 may precede them)
        n_ += 1
        chk.ob("class|%s|dimension" % cn, dims == named, "the static dimension in a class name is the dimension of the wrapped number type",
               "src/python", found="%s wraps %s" % (cn, info["inner"]), required="dimensions %s" % named, nontrivial=False)
    chk.count("dimensioned classes", n_)


def registration(chk, F, classes):
    init = [b for b in F.bodies.values() if b["dk"] == "Fn" and b["path"] == "python::num_dual"]
    if len(init) != 1:
        chk.undecide("registration", "missing anchor: #[pymodule] fn num_dual")
        return
    b = init[0]
    added = set()
    texts = set()
    for n in walk.walk_body(b):
        if n.get("k") == "mcall" and n["m"] == "add_class":
            c = n.get("callee") or {}
            for t in (c.get("args") or []):
                if isinstance(t, int) and F.adt_name(t):
                    added.add(F.adt_name(t))
        if n.get("k") == "path" and n["res"].get("r") == "def":
            texts.add(n["res"].get("text", ""))
            texts.add(n["res"]["c"].get("path", ""))
    ctor = {cn for cn, info in classes.items() if "new" in info["methods"]}
    chk.ob("registration|classes", ctor <= added, "every class with a constructor is added to the module", body_loc(F, b),
           found=sorted(added), required=sorted(ctor))
    chk.count("registered classes", len(added))
    pyfns = set()
    for bb in F.bodies.values():
        nm = bb.get("name") or ""
        if nm.startswith("__pyfunction_"):
            pyfns.add(nm[len("__pyfunction_"):])
    blob = " ".join(texts)
    missing = sorted(f for f in pyfns if (f + "::") not in blob and ("::" + f) not in blob)
    chk.ob("registration|functions", not missing and len(pyfns) >= 10, "every #[pyfunction] is added to the module", body_loc(F, b),
           found="pyfunctions: %s; missing: %s" % (sorted(pyfns), missing), required="all of them registered")
    chk.count("pyfunctions", len(pyfns))
