"""C02 — dual arithmetic is the truncated Taylor algebra."""
from .. import facts
from ..report import Check
from . import algebra
from .common import *


def run(tier):
    chk = Check("C02", tier, "proof",
                "every part of  a*b, a/b, a+b, a-b, -a  (8 types, every presence pattern of optional parts) is "
                "normalised to a canonical polynomial/Laurent form over the operand parts and compared with the "
                "part obtained by formal differentiation (Leibniz, quotient rule) of the real expression; the same for every other "
                "form of these operations between two dual numbers (owned/borrowed operand mixes, compound assignment, Neg, Inv)",
                assumptions=["identities are over the reals (commutative ring with inverses); rounding is not decided",
                             "the inner number type T is an abstract commutative ring"],
                trusted_base=["rustc type checker and name resolution", "ndv-export fact exporter",
                              "ndvlib/poly.py term rewriter", "ndvlib/spec.py gradings (DESIGN Appendix A.1)"])
    F = facts.load("default")
    for p in check_grading_against_adts(F):
        chk.undecide("grading", p)
    algebra.check_arith(chk, F)
    from . import container, c08
    container.check_L1(chk, F)
    # every syntactic form of the operations between two dual numbers (owned / borrowed operands, compound assignment, Neg, Inv)
    for ty in TYPES:
        c08.check_type(chk, F, ty, thorough=False, dual_only=True)
    chk.floor("operator/conversion impls", chk.analysed.get("operator/conversion impls", 0), 8 * 22)
    chk.floor("binary operator bodies", chk.analysed.get("binary operator bodies", 0), 32)
    chk.floor("unary operator bodies", chk.analysed.get("unary operator bodies", 0), 8)
    return chk.finish()
