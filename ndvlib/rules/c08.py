"""C08 — all syntactic forms of an operation give the same result."""
from .. import facts
from ..report import Check
from ..interp import IterV, Ref
from . import algebra
from .common import *

A, B, Cc = Poly.var("a.re"), Poly.var("b.re"), Poly.var("c")
OPS = {"Add": ("add", lambda x, y: x + y), "Sub": ("sub", lambda x, y: x - y),
       "Mul": ("mul", lambda x, y: x * y), "Div": ("div", lambda x, y: x * y.recip())}
ASSIGN = {"AddAssign": ("add_assign", "Add"), "SubAssign": ("sub_assign", "Sub"),
          "MulAssign": ("mul_assign", "Mul"), "DivAssign": ("div_assign", "Div")}
CONSTS = ["E", "FRAC_1_PI", "FRAC_1_SQRT_2", "FRAC_2_PI", "FRAC_2_SQRT_PI", "FRAC_PI_2", "FRAC_PI_3", "FRAC_PI_4",
          "FRAC_PI_6", "FRAC_PI_8", "LN_10", "LN_2", "LOG10_E", "LOG2_E", "PI", "SQRT_2"]
FROMPRIM = ["from_isize", "from_i8", "from_i16", "from_i32", "from_i64", "from_i128", "from_usize", "from_u8",
            "from_u16", "from_u32", "from_u64", "from_u128", "from_f32", "from_f64"]


def run(tier):
    chk = Check("C08", tier, "proof",
                "every operator / conversion impl generated per type (owned, borrowed and mixed + - * /, compound "
                "assignment, scalar right operands, Neg, Inv, Sum, Product, From<F>, Zero, One, FromPrimitive, FloatConst, "
                "default mul_add) is evaluated to canonical form and compared with the operation between dual numbers "
                "with the scalar lifted to a constant (all derivative parts zero)",
                assumptions=["identities over the reals; multiplicative scalar forms agree to rounding only (as stated)"],
                trusted_base=["rustc type checker and name resolution", "ndv-export", "ndvlib/poly.py", "gradings (A.1)"])
    F = facts.load("default")
    for ty in TYPES:
        check_type(chk, F, ty, thorough=(tier == "thorough"))
    check_mul_add_default(chk, F)
    chk.floor("operator/conversion impls", chk.analysed.get("operator/conversion impls", 0), 8 * 40)
    return chk.finish()


def pats_for(ty, thorough):
    pats = presence_patterns(ty)
    if thorough or len(pats) <= 4:
        return pats
    # quick tier: all-present, all-absent and each single part present / absent
    keep = []
    n = len(pats[0])
    for p in pats:
        k = sum(p.values())
        if k in (0, 1, n - 1, n):
            keep.append(p)
    return keep


def check_type(chk, F, ty, thorough, dual_only=False, also=()):
    """dual_only: only the forms whose operands are all dual numbers (owned/borrowed + - * /, compound assignment, Neg, Inv), plus the
    forms of the traits named in `also` (those the dependent code calls: resolved callees)"""
    pats = presence_patterns(ty)
    for imp in F.impls.values():
        if F.adt_name(imp["self"]) != ty or not imp.get("trait"):
            continue
        tr = imp["trait"].split("::")[-1]
        self_ref = F.ty(imp["self"])["k"] == "ref"
        targs = imp.get("trait_args", [])
        rhs_t = F.ty(targs[1]) if len(targs) > 1 and isinstance(targs[1], int) else None
        rhs_ref = rhs_t is not None and rhs_t["k"] == "ref"
        rhs_dual = rhs_t is not None and F.adt_name(targs[1]) == ty
        rhs_scalar = rhs_t is not None and rhs_t["k"] == "param"
        form = "%s%s<%s%s>" % ("&" if self_ref else "", tr, "&" if rhs_ref else "",
                               "Self" if rhs_dual else ("F" if rhs_scalar else (rhs_t or {}).get("s", "")))
        if dual_only and not ((tr in OPS and rhs_dual) or (tr in ASSIGN and (rhs_dual or rhs_t is None)) or tr in ("Neg", "Inv") or tr in also):
            continue
        if tr in OPS:
            meth, f = OPS[tr]
            body = F.impl_item(imp, meth)
            chk.count("operator/conversion impls")
            for pa in pats_for(ty, thorough):
                for pb in (pats_for(ty, thorough) if rhs_dual else [None]):
                    sp = Spec(ty, absent_set("a", pa) | absent_set("b", pb))
                    key = "form|%s|%s|presence=%s%s" % (ty, form, pres_tag(pa), pres_tag(pb) if rhs_dual else "")
                    try:
                        if rhs_dual:
                            mk = lambda: [sp.operand("a", pa), sp.operand("b", pb)]
                            want = sp.spec_of_real(f(A, B))
                        elif rhs_scalar:
                            mk = lambda: [sp.operand("a", pa), Sc(Cc)]
                            want = sp.spec_of_real(f(A, Cc))
                        else:
                            chk.undecide(key, "unrecognised right operand type %s" % form, body_loc(F, body))
                            continue
                        for sfx, r, _ in all_paths(F, body, mk):
                            compare_parts(chk, key + sfx, "%s equals the dual operation with the scalar lifted to a constant" % form,
                                          body_loc(F, body), sp, r, want)
                    except Unsupported as ex:
                        chk.undecide(key, "unsupported: %s" % ex, body_loc(F, body))
        elif tr in ASSIGN:
            meth, op = ASSIGN[tr]
            f = OPS[op][1]
            body = F.impl_item(imp, meth)
            chk.count("operator/conversion impls")
            if rhs_t is None:
                rhs_dual = True  # `impl AddAssign for X` (default Rhs = Self)
                form = "%s<Self>" % tr
            for pa in pats_for(ty, thorough):
                for pb in (pats_for(ty, thorough) if rhs_dual else [None]):
                    sp = Spec(ty, absent_set("a", pa) | absent_set("b", pb))
                    key = "form|%s|%s|presence=%s%s" % (ty, form, pres_tag(pa), pres_tag(pb) if rhs_dual else "")
                    try:
                        if rhs_dual:
                            mk = lambda: [Ref([sp.operand("a", pa)], 0), sp.operand("b", pb)]
                            want = sp.spec_of_real(f(A, B))
                        else:
                            mk = lambda: [Ref([sp.operand("a", pa)], 0), Sc(Cc)]
                            want = sp.spec_of_real(f(A, Cc))
                        for sfx, _, args in all_paths(F, body, mk):
                            compare_parts(chk, key + sfx, "%s updates self to the result of the binary operation" % form,
                                          body_loc(F, body), sp, args[0].c[0], want)
                    except Unsupported as ex:
                        chk.undecide(key, "unsupported: %s" % ex, body_loc(F, body))
        elif tr == "Neg":
            body = F.impl_item(imp, "neg")
            chk.count("operator/conversion impls")
            for pa in pats:
                sp = Spec(ty, absent_set("a", pa))
                key = "form|%s|%sNeg|presence=%s" % (ty, "&" if self_ref else "", pres_tag(pa))
                try:
                    for sfx, r, _ in all_paths(F, body, lambda: [sp.operand("a", pa)]):
                        compare_parts(chk, key + sfx, "negation negates every part", body_loc(F, body), sp, r, sp.spec_of_real(-A))
                except Unsupported as ex:
                    chk.undecide(key, "unsupported: %s" % ex, body_loc(F, body))
        elif tr == "Inv":
            body = F.impl_item(imp, "inv")
            chk.count("operator/conversion impls")
            for pa in pats:
                sp = Spec(ty, absent_set("a", pa))
                key = "form|%s|Inv|presence=%s" % (ty, pres_tag(pa))
                try:
                    for sfx, r, _ in all_paths(F, body, lambda: [sp.operand("a", pa)]):
                        compare_parts(chk, key + sfx, "inv is the reciprocal", body_loc(F, body), sp, r, sp.spec_of_real(A.recip()))
                except Unsupported as ex:
                    chk.undecide(key, "unsupported: %s" % ex, body_loc(F, body))
        elif tr in ("Sum", "Product"):
            meth = tr.lower()
            body = F.impl_item(imp, meth)
            chk.count("operator/conversion impls")
            byref = bool(targs[1:]) and rhs_ref
            allp = pats[-1] if pats[-1] else None
            nonep = pats[0] if pats[0] else None
            for (pa, pb) in ((allp, allp), (nonep, allp), (allp, nonep)):
                sp = Spec(ty, absent_set("a", pa) | absent_set("b", pb))
                key = "form|%s|%s<%sSelf>|presence=%s%s" % (ty, tr, "&" if byref else "", pres_tag(pa), pres_tag(pb))
                try:
                    want = sp.spec_of_real(A + B if tr == "Sum" else A * B)
                    for sfx, r, _ in all_paths(F, body, lambda: [IterV([sp.operand("a", pa), sp.operand("b", pb)])]):
                        compare_parts(chk, key + sfx, "%s folds the items with %s starting from the neutral element" % (
                            tr, "+" if tr == "Sum" else "*"), body_loc(F, body), sp, r, want)
                except Unsupported as ex:
                    chk.undecide(key, "unsupported: %s" % ex, body_loc(F, body))
            try:
                sp = Spec(ty)
                r = Interp(F, DOMK).call_body(body, [IterV([])])
                compare_parts(chk, "form|%s|%s<%sSelf>|empty" % (ty, tr, "&" if byref else ""),
                              "empty %s is the neutral element" % tr, body_loc(F, body), sp, r,
                              sp.spec_of_real(Poly.const(0 if tr == "Sum" else 1)))
            except Unsupported as ex:
                chk.undecide("form|%s|%s|empty" % (ty, tr), "unsupported: %s" % ex, body_loc(F, body))
        elif tr == "From" and rhs_scalar:
            body = F.impl_item(imp, "from")
            chk.count("operator/conversion impls")
            sp = Spec(ty)
            try:
                r = Interp(F, DOMK).call_body(body, [Sc(Cc)])
                compare_parts(chk, "form|%s|From<F>" % ty, "a lifted scalar is a constant (derivative parts zero/absent)",
                              body_loc(F, body), sp, r, sp.spec_of_real(Cc))
            except Unsupported as ex:
                chk.undecide("form|%s|From<F>" % ty, "unsupported: %s" % ex, body_loc(F, body))
        elif tr in ("Zero", "One"):
            chk.count("operator/conversion impls")
            sp = Spec(ty)
            nm = tr.lower()
            body = F.impl_item(imp, nm)
            try:
                r = Interp(F, DOMK).call_body(body, [])
                compare_parts(chk, "form|%s|%s::%s" % (ty, tr, nm), "%s() is the constant" % nm, body_loc(F, body), sp, r,
                              sp.spec_of_real(Poly.const(0 if tr == "Zero" else 1)))
            except Unsupported as ex:
                chk.undecide("form|%s|%s" % (ty, tr), "unsupported: %s" % ex, body_loc(F, body))
            pred = "is_" + nm
            body = F.impl_item(imp, pred)
            if body is None and pred == "is_one":
                from .c06 import default_is_one
                default_is_one(chk, F, "form|%s|%s::%s" % (ty, tr, pred), imp, ty, sp)
            elif body is None:
                chk.undecide("form|%s|%s::%s" % (ty, tr, pred), "missing anchor")
            else:
                from .c06 import single_pred_forward
                try:
                    single_pred_forward(chk, F, "form|%s|%s::%s" % (ty, tr, pred), body, sp, pred)
                except Unsupported as ex:
                    chk.undecide("form|%s|%s::%s" % (ty, tr, pred), "unsupported: %s" % ex, body_loc(F, body))
        elif tr == "FromPrimitive":
            chk.count("operator/conversion impls")
            sp = Spec(ty)
            for nm in FROMPRIM:
                body = F.impl_item(imp, nm)
                key = "form|%s|FromPrimitive::%s" % (ty, nm)
                if body is None:
                    chk.undecide(key, "missing anchor")
                    continue
                try:
                    it = Interp(F, DOMK, extern=fromprim_extern())
                    r = unref(it.call_body(body, [Sc(Poly.var("k"))]))
                    ok = isinstance(r, Opt) and r.some
                    if ok:
                        inner = unref(r.v)
                        want = sp.spec_of_real(Poly.atom(("f", "F::" + nm, Poly.var("k"))))
                        compare_parts(chk, key, "%s(n) is Some(constant F::%s(n))" % (nm, nm), body_loc(F, body), sp, inner, want)
                    else:
                        chk.ob(key, False, "conversion goes through F::%s" % nm, body_loc(F, body), found=repr(r)[:200])
                except Unsupported as ex:
                    chk.undecide(key, "unsupported: %s" % ex, body_loc(F, body))
        elif tr == "FloatConst":
            chk.count("operator/conversion impls")
            sp = Spec(ty)
            for nm in CONSTS:
                body = F.impl_item(imp, nm)
                key = "form|%s|FloatConst::%s" % (ty, nm)
                if body is None:
                    chk.undecide(key, "missing anchor")
                    continue
                try:
                    r = Interp(F, DOMK).call_body(body, [])
                    compare_parts(chk, key, "constant %s is F::%s with zero derivative parts" % (nm, nm), body_loc(F, body),
                                  sp, r, sp.spec_of_real(Poly.sym(nm)))
                except Unsupported as ex:
                    chk.undecide(key, "unsupported: %s" % ex, body_loc(F, body))


def fromprim_extern():
    d = {}

    def mk(nm):
        def f(it, args, e):
            return Opt(True, Sc(Poly.atom(("f", "F::" + nm, unref(args[0]).v))))
        return f
    for nm in FROMPRIM:
        d["num_traits::FromPrimitive::" + nm] = mk(nm)
    return d


def check_mul_add_default(chk, F):
    tr = F.traits.get("DualNum")
    body = None
    if tr:
        for it in tr["items"]:
            if it["name"] == "mul_add":
                body = F.bodies.get(it["did"])
    if body is None:
        chk.undecide("form|DualNum::mul_add", "missing anchor: provided method DualNum::mul_add")
        return
    chk.count("default methods")
    x, a, b = Poly.var("x"), Poly.var("a"), Poly.var("b")
    try:
        for sfx, r, _ in all_paths(F, body, lambda: [Sc(x), Sc(a), Sc(b)]):
            r = unref(r)
            ok = isinstance(r, Sc) and equal(r.v, x * a + b)
            chk.ob("form|DualNum::mul_add" + sfx, ok, "default mul_add is self*a + b on every path (a predicate on a dual number only "
                   "inspects its real part; operators verified per type)",
                   body_loc(F, body), found=r.v.show() if isinstance(r, Sc) else repr(r), required=(x * a + b).show())
    except Unsupported as ex:
        chk.undecide("form|DualNum::mul_add", "unsupported: %s" % ex, body_loc(F, body))
    # no type overrides the default with something different: any override is checked end-to-end
    for ty in TYPES:
        imp = algebra.dualnum_impl(F, ty)
        ov = F.impl_item(imp, "mul_add") if imp else None
        if ov is not None:
            sp = Spec(ty)
            try:
                r = Interp(F, DOMK).call_body(ov, [sp.operand("a"), sp.operand("b"), sp.operand("c")])
                compare_parts(chk, "form|%s|mul_add(override)" % ty, "overridden mul_add equals self*a + b", body_loc(F, ov), sp, r,
                              sp.spec_of_real(A * B + Poly.var("c.re")))
            except Unsupported as ex:
                chk.undecide("form|%s|mul_add(override)" % ty, "unsupported: %s" % ex, body_loc(F, ov))
