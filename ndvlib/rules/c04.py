"""C04 — all number types, nestings and storage variants agree on shared derivatives."""
import re

from .. import facts
from ..report import Check
from . import algebra
from .common import *

NDERIV = {"Dual": 1, "DualVec": 1, "Dual2": 2, "Dual2Vec": 2, "Dual3": 3, "HyperDual": 2, "HyperDualVec": 2,
          "HyperHyperDual": 3}

# homomorphisms between gradings: (source type, target type, part map source field -> target field or None (dropped),
#  index handling).  A derivative exposed by both types must have the same canonical form through either.
HOMS = [
    ("HyperDual", "Dual2", {"re": "re", "eps1": "v1", "eps2": "v1", "eps1eps2": "v2"}),
    ("HyperHyperDual", "Dual3", {"re": "re", "eps1": "v1", "eps2": "v1", "eps3": "v1", "eps1eps2": "v2", "eps1eps3": "v2",
                                 "eps2eps3": "v2", "eps1eps2eps3": "v3"}),
    ("HyperHyperDual", "HyperDual", {"re": "re", "eps1": "eps1", "eps2": "eps2", "eps1eps2": "eps1eps2", "eps3": None,
                                     "eps1eps3": None, "eps2eps3": None, "eps1eps2eps3": None}),
    ("Dual3", "Dual2", {"re": "re", "v1": "v1", "v2": "v2", "v3": None}),
    ("Dual2", "Dual", {"re": "re", "v1": "eps", "v2": None}),
    ("HyperDual", "Dual", {"re": "re", "eps1": "eps", "eps2": None, "eps1eps2": None}),
    ("DualVec", "Dual", {"re": "re", "eps": "eps"}),
    ("Dual2Vec", "Dual2", {"re": "re", "v1": "v1", "v2": "v2"}),
    ("HyperDualVec", "HyperDual", {"re": "re", "eps1": "eps1", "eps2": "eps2", "eps1eps2": "eps1eps2"}),
    ("Dual2Vec", "DualVec", {"re": "re", "v1": "eps", "v2": None}),
]


def run(tier):
    chk = Check("C04", tier, "proof",
                "one generator: chain rule, product and quotient of all 8 types are discharged against the same "
                "formal-differentiation spec; sibling agreement code-vs-code: the canonical forms computed by a richer type, "
                "mapped through the grading homomorphism (e.g. eps1,eps2 -> v1, eps1eps2 -> v2), coincide with those of the "
                "poorer type for chain rule, product and quotient; NDERIV is T::NDERIV + order; re()/from_inner recurse through "
                "the inner type; the public alias table maps 32/64, SVec/DVec to the declared parameters; exactly one generic "
                "impl per operation and type constructor (static and dynamic sizes share it)",
                assumptions=["agreement 'to 32-bit accuracy' numerically is not decided (same generic body for f32 and f64)",
                             "nesting depth: by induction over the abstract inner ring T"],
                trusted_base=["rustc type checker, name resolution and coherence", "ndv-export", "ndvlib/poly.py", "gradings (A.1)"])
    F = facts.load("default")
    for p in check_grading_against_adts(F):
        chk.undecide("grading", p)
    algebra.check_chain_rules(chk, F, tag="gen-chain")
    algebra.check_arith(chk, F, traits=("Mul", "Div"), neg=False, tag="gen-arith")
    sibling_agreement(chk, F)
    # nesting: every generic body is verified with the inner type T abstract (T::re() an opaque projection), i.e. for T a dual number as
    # well as for T = f64 — closed forms, the two-argument arctangent and the dual-with-float operator forms of the inner type
    from . import c01, c08
    algebra.check_closed_forms(chk, F, tag="nested-closed")
    for ty in TYPES:
        c01.check_atan2(chk, F, ty, tag="nested")
        c08.check_type(chk, F, ty, thorough=False)
    vector_scalar_agreement(chk, F)
    nderiv(chk, F)
    recursion_items(chk, F)
    aliases(chk, F)
    single_generic_impl(chk, F)
    chk.floor("homomorphism pairs", chk.analysed.get("homomorphism pairs", 0), len(HOMS))
    chk.floor("public aliases", chk.analysed.get("public aliases", 0), 26)
    return chk.finish()


def canon_forms(F, ty, what):
    """field -> Poly of the code's own result for the all-present operand(s)"""
    sp = Spec(ty)
    it = Interp(F, DOMK)
    if what == "chain":
        body = algebra.chain_rule_body(F, ty)
        nf = len(body["params"]) - 1
        r = it.call_body(body, [sp.operand("a")] + [Sc(Poly.var("F%d" % k)) for k in range(nf)])
    else:
        body = refref_binop(F, ty, what)
        r = it.call_body(body, [sp.operand("a"), sp.operand("b")])
    r = unref(r)
    return {f: value_part_poly(r, f) for f, _ in sp.parts()}, body


def sibling_agreement(chk, F):
    for src, dst, fmap in HOMS:
        chk.count("homomorphism pairs")
        src_idx = GRADINGS[src]["vec"]
        dst_idx = GRADINGS[dst]["vec"]

        def image(p):
            """map a source-type canonical form into the target type's atoms"""
            def f(a):
                if a[0] != "v" or "." not in a[1]:
                    return None
                op, fld = a[1].split(".", 1)
                if fld not in fmap:
                    return None
                tgt = fmap[fld]
                if tgt is None:
                    return Poly()
                idx = a[2] if dst_idx else ()
                if dst_idx and src_idx:
                    # re-index to the layout of the target part: vectors of DualVec are columns ($r), rows of Dual2Vec ($c)
                    want = [d[1] for d in dict(GRADINGS[dst]["parts"])[tgt] if d[1] is not None]
                    if len(want) == len(idx):
                        idx = tuple(idx)
                return Poly.var("%s.%s" % (op, tgt), idx)
            return p.subst(f)
        for what in ("chain", "Mul", "Div"):
            key0 = "hom|%s->%s|%s" % (src, dst, what.lower())
            try:
                s_forms, s_body = canon_forms(F, src, what)
                d_forms, d_body = canon_forms(F, dst, what)
            except Unsupported as ex:
                chk.undecide(key0, "unsupported: %s" % ex)
                continue
            # chain rules of different order take different numbers of function values: F_k beyond the target order
            # only occur in dropped parts
            for fld, tgt in fmap.items():
                if tgt is None:
                    continue
                got = image(s_forms[fld])
                want = d_forms[tgt]
                if src_idx and dst_idx and src == "Dual2Vec" and dst == "DualVec":
                    want = want.rename_idx({"$r": "$c"})
                if src_idx and not dst_idx:
                    want = want  # scalar target: indices were dropped by image()
                ok = equal(got, want)
                chk.ob("%s|%s=%s" % (key0, fld, tgt), ok,
                       "%s.%s mapped through the grading homomorphism equals %s.%s (same derivative through both types)" % (src, fld, dst, tgt),
                       "%s vs %s" % (body_loc(F, s_body), body_loc(F, d_body)), found=got.show(), required=want.show())


VEC_SCALAR = [("DualVec", "Dual"), ("Dual2Vec", "Dual2"), ("HyperDualVec", "HyperDual")]
ASSIGN_TRAITS = ["AddAssign", "SubAssign", "MulAssign", "DivAssign"]


def op_body(F, ty, trait):
    """(body, in_place) of the dual-by-dual form of an operator trait"""
    if trait in ASSIGN_TRAITS:
        for imp in F.impls_of(trait, ty):
            ta = imp.get("trait_args", [])
            rhs_dual = len(ta) < 2 or (isinstance(ta[1], int) and F.adt_name(ta[1]) == ty)
            if rhs_dual:
                return F.impl_item(imp, {"AddAssign": "add_assign", "SubAssign": "sub_assign", "MulAssign": "mul_assign",
                                         "DivAssign": "div_assign"}[trait]), True
        return None, True
    return refref_binop(F, ty, trait), False


def eval_op(F, ty, body, in_place, pa, pb):
    from ..interp import Ref
    sp = Spec(ty, absent_set("a", pa) | absent_set("b", pb))
    it = Interp(F, DOMK)
    a, b = sp.operand("a", pa), sp.operand("b", pb)
    if in_place:
        cell = [a]
        it.call_body(body, [Ref(cell, 0), b])
        r = unref(cell[0])
    else:
        r = unref(it.call_body(body, [a, b]))
    return {f: value_part_poly(r, f) for f, _ in sp.parts()}


def vector_scalar_agreement(chk, F):
    """vector types agree component-wise with the scalar types in every presence pattern (an absent part of the vector type is a
    zero part of the scalar type), for the binary and the in-place forms of + - * /"""
    def drop_idx(p):
        def f(a):
            if a[0] == "v" and a[2]:
                return Poly.atom(("v", a[1], ()))
            return None
        return p.subst(f)
    for vec, sca in VEC_SCALAR:
        for trait in ["Add", "Sub", "Mul", "Div"] + ASSIGN_TRAITS:
            vb, inplace = op_body(F, vec, trait)
            sb, _ = op_body(F, sca, trait)
            key0 = "vec-scalar|%s~%s|%s" % (vec, sca, trait)
            if vb is None or sb is None:
                chk.undecide(key0, "missing anchor: %s for %s / %s" % (trait, vec, sca))
                continue
            chk.count("vector/scalar operator pairs")
            try:
                sforms = eval_op(F, sca, sb, inplace, None, None)
            except Unsupported as ex:
                chk.undecide(key0, "unsupported: %s" % ex, body_loc(F, sb))
                continue
            pats = presence_patterns(vec)
            for pa in pats:
                for pb in pats:
                    key = "%s|presence=%s%s" % (key0, pres_tag(pa), pres_tag(pb))
                    try:
                        vforms = eval_op(F, vec, vb, inplace, pa, pb)
                    except Unsupported as ex:
                        chk.undecide(key, "unsupported: %s" % ex, body_loc(F, vb))
                        continue
                    absent = absent_set("a", pa) | absent_set("b", pb)
                    bad = []
                    for f in vforms:
                        want = sforms[f].subst(lambda a: Poly() if (a[0] == "v" and a[1] in absent) else None)
                        got = drop_idx(vforms[f])
                        if not equal(got, want):
                            bad.append("%s: vector type computes %s, scalar type %s" % (f, got.show(), want.show()))
                    chk.ob(key, not bad, "the vector type agrees component-wise with the scalar type (absent part = zero part)",
                           "%s vs %s" % (body_loc(F, vb), body_loc(F, sb)), found="; ".join(bad[:2]) or "all parts agree",
                           required="same canonical form")


def nderiv(chk, F):
    for ty in TYPES:
        imp = algebra.dualnum_impl(F, ty)
        body = F.impl_item(imp, "NDERIV") if imp else None
        key = "nderiv|%s" % ty
        if body is None:
            chk.undecide(key, "missing anchor: const NDERIV of impl DualNum for %s" % ty)
            continue
        chk.count("NDERIV constants")
        try:
            r = unref(Interp(F, DOMK).call_body(body, []))
            # T::NDERIV is a named constant atom; the level's own contribution must be the order of the type
            ok = False
            found = repr(r)
            if isinstance(r, Sc):
                found = r.v.show()
                consts = [a for a in r.v.atoms() if a[0] == "c" and a[1].startswith("NDERIV(")]
                if len(consts) == 1:
                    inner = Poly.atom(consts[0])
                    ok = equal(r.v, inner + NDERIV[ty])
            chk.ob(key, ok, "advertised order of a nesting is the inner order plus this level's order", body_loc(F, body),
                   found=found, required="T::NDERIV + %d" % NDERIV[ty])
        except Unsupported as ex:
            chk.undecide(key, "unsupported: %s" % ex, body_loc(F, body))
    for fl in ("f32", "f64"):
        imps = [i for i in F.impls_of("DualNum") if F.ty(i["self"]).get("n") == fl]
        body = F.impl_item(imps[0], "NDERIV") if len(imps) == 1 else None
        if body is None:
            chk.undecide("nderiv|%s" % fl, "missing anchor")
            continue
        r = unref(Interp(F, DOMK).call_body(body, []))
        chk.ob("nderiv|%s" % fl, isinstance(r, Sc) and r.v.const_value() == 0, "plain floats have order 0", body_loc(F, body),
               found=repr(r), required="0", nontrivial=False)


def recursion_items(chk, F):
    for ty in TYPES:
        imp = algebra.dualnum_impl(F, ty)
        sp = Spec(ty)
        body = F.impl_item(imp, "re") if imp else None
        if body is None:
            chk.undecide("rec|%s|re" % ty, "missing anchor")
        else:
            r = unref(Interp(F, DOMK).call_body(body, [sp.operand("self")]))
            chk.ob("rec|%s|re" % ty, isinstance(r, Sc) and equal(r.v, apply_fn("re", Poly.var("self.re"))), "re() recurses into the real part",
                   body_loc(F, body), found=repr(r), required="self.re.re()", nontrivial=False)
        body = F.impl_item(imp, "from_inner") if imp else None
        if body is None:
            chk.undecide("rec|%s|from_inner" % ty, "missing anchor")
        else:
            r = Interp(F, DOMK).call_body(body, [Sc(Poly.var("c"))])
            compare_parts(chk, "rec|%s|from_inner" % ty, "from_inner lifts the inner number to a constant", body_loc(F, body), sp, r,
                          sp.spec_of_real(Poly.var("c")))


ALIAS_RE = re.compile(r"^(Dual|Dual2|Dual3|HyperDual|HyperHyperDual)(Vec|SVec|DVec)?_?(32|64)$")


def aliases(chk, F):
    for al in F.aliases:
        if not al.get("vis", "").startswith("Public"):
            continue
        m = ALIAS_RE.match(al["name"])
        key = "alias|%s" % al["name"]
        if not m:
            chk.note("alias %s outside the naming scheme" % al["name"])
            continue
        chk.count("public aliases")
        base, vec, width = m.groups()
        want_adt = base + ("Vec" if vec else "")
        t = F.ty(al["t"])
        ok = t["k"] == "adt" and t["n"].split("::")[-1] == want_adt
        found = t.get("s")
        if ok:
            args = [F.ty(a) if isinstance(a, int) else a for a in t["a"]]
            fl = "f" + width
            ok = args[0].get("n") == fl and args[1].get("n") == fl
            dims = args[2:]
            if vec == "SVec":
                ok = ok and all(d.get("k") == "adt" and d["n"].endswith("Const") for d in dims) and len(dims) >= 1
            elif vec == "DVec":
                ok = ok and all(d.get("k") == "adt" and d["n"].endswith("Dyn") for d in dims) and len(dims) >= 1
            elif vec == "Vec":
                ok = ok and all(d.get("k") == "param" for d in dims) and len(dims) >= 1
            else:
                ok = ok and not dims
        chk.ob(key, ok, "alias name encodes float width and storage of the type it denotes", "", found=found,
               required="%s<f%s, f%s%s>" % (want_adt, width, width, {"SVec": ", Const<..>", "DVec": ", Dyn", "Vec": ", D", None: ""}[vec]),
               nontrivial=False)


def single_generic_impl(chk, F):
    """exactly one impl per (operation trait, self form) and type constructor, generic in the dimension; the only
    dimension-specialised impls are Copy for Const<N>"""
    for ty in TYPES:
        seen = {}
        for imp in F.impls.values():
            if F.adt_name(imp["self"]) != ty or not imp.get("trait"):
                continue
            tr = imp["trait"].split("::")[-1]
            st = F.peel(imp["self"])
            args = [F.ty(a) if isinstance(a, int) else a for a in st["a"]]
            dims = args[2:]
            specialised = any(d.get("k") != "param" for d in dims)
            if specialised and tr in ("From", "Into") and any(isinstance(a, int) and (F.adt_name(a) or "").startswith("Py")
                                                              for a in imp.get("trait_args", [])):
                continue  # conversion glue of the Python binding layer, not an operation
            if specialised and tr not in ("Copy",):
                chk.ob("generic|%s|%s" % (ty, tr), False, "operations are implemented once, generically in the dimension",
                       F.loc(imp["l"]), found=F.ty(imp["self"]).get("s"), required="generic dimension parameters")
            form = (tr, F.ty(imp["self"])["k"] == "ref", tuple(F.ty(a).get("s") if isinstance(a, int) else str(a) for a in imp.get("trait_args", [])[1:]))
            seen[form] = seen.get(form, 0) + 1
        dup = {k: v for k, v in seen.items() if v > 1}
        chk.ob("generic|%s" % ty, not dup, "one impl per operation form and type constructor", "", found=str(dup) if dup else "%d impl forms" % len(seen),
               nontrivial=False)
        chk.count("impl forms", len(seen))
