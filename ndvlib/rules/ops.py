"""Catalogue of the operations of one number type (bodies + argument builders), shared by C03/C06."""
from .common import *
from ..interp import Dep, DomC, Ref, IterV, DimV
from . import algebra

OP_TRAITS = ("Add", "Sub", "Mul", "Div", "Neg", "AddAssign", "SubAssign", "MulAssign", "DivAssign", "Inv",
             "Signed", "From", "Zero", "One", "DualNum", "ComplexField", "RealField")


def dep_operand(ty, opname, presence=None):
    g = GRADINGS[ty]
    f = {}
    for field, pd in g["parts"]:
        d = Dep({"%s.%s" % (opname, field)})
        if not pd:
            f[field] = Sc(d)
        elif g["vec"]:
            present = True if presence is None else presence.get(field, True)
            f[field] = Rec("Derivative", {"0": Opt(True, Mat(d, g["shapes"][field])) if present else Opt(False), "1": PHANTOM})
        else:
            f[field] = Sc(d)
    f["f"] = PHANTOM
    return Rec(ty, f)


def arg_for(F, ty, tindex, name, mk_operand, mk_scalar):
    t = F.ty(tindex)
    by_mut_ref = False
    while t["k"] == "ref":
        by_mut_ref = by_mut_ref or t.get("m", False)
        t = F.ty(t["t"])
    if t["k"] == "adt" and t["n"].split("::")[-1] == ty:
        v = mk_operand(name)
        if by_mut_ref:
            cell = [v]
            return Ref(cell, 0), cell
        return v, None
    if t["k"] in ("param", "prim") or (t["k"] == "alias"):
        return mk_scalar(name), None
    return None, None


def operations(F, ty, traits=OP_TRAITS):
    """yield (label, body) for every fn item of the listed traits implemented for ty (+ provided DualNum items)"""
    for imp in F.impls.values():
        if F.adt_name(imp["self"]) != ty or not imp.get("trait"):
            continue
        tr = imp["trait"].split("::")[-1]
        if tr not in traits:
            continue
        for it in imp["items"]:
            if it["dk"] != "AssocFn":
                continue
            b = F.bodies.get(it["did"])
            if b is None:
                continue
            targs = imp.get("trait_args", [])
            rhs = ""
            if len(targs) > 1 and isinstance(targs[1], int):
                rhs = "<" + F.ty(targs[1]).get("s", "?") + ">"
            selfs = "&" if F.ty(imp["self"])["k"] == "ref" else ""
            yield "%s%s%s::%s" % (selfs, tr, rhs, it["name"]), b, tr
    tr = F.traits.get("DualNum")
    if tr and "DualNum" in traits:
        imp = algebra.dualnum_impl(F, ty)
        have = {it["name"] for it in imp["items"]} if imp else set()
        for it in tr["items"]:
            if it.get("default") and it["kind"].startswith("Fn") and it["name"] not in have and it["did"] in F.bodies:
                yield "DualNum::%s(default)" % it["name"], F.bodies[it["did"]], "DualNum"


def build_args(F, ty, body, mk_operand, mk_scalar):
    names = ["a", "b", "c", "d"]
    args = []
    cells = []
    sig = body.get("sig_in", [])
    # provided trait methods have Self-typed parameters
    for i, ti in enumerate(sig):
        t = F.ty(ti)
        tt = t
        mutref = False
        while tt["k"] == "ref":
            mutref = mutref or tt.get("m", False)
            tt = F.ty(tt["t"])
        if tt["k"] == "param" and tt["n"] == "Self":
            v = mk_operand(names[i])
            if mutref:
                cell = [v]
                args.append(Ref(cell, 0))
                cells.append(cell)
            else:
                args.append(v)
            continue
        v, cell = arg_for(F, ty, ti, names[i], mk_operand, mk_scalar)
        if v is None:
            return None, None
        args.append(v)
        if cell is not None:
            cells.append(cell)
    return args, cells
