"""Domain-A rule library: arithmetic, chain rules, closed forms, end-to-end liftings."""
from fractions import Fraction as Fr

from .common import *

X = Poly.var("self.re")
N = Poly.sym("n")
BASE = Poly.var("base")

# real function of each elementary interface item, as a canonical term over x (= self.re)
UNARY = ["recip", "sqrt", "cbrt", "exp", "exp2", "exp_m1", "ln", "log2", "log10", "ln_1p", "sin", "cos",
         "asin", "acos", "atan", "sinh", "cosh", "asinh", "acosh", "atanh"]


def real_fn(name, x, extra=None):
    if name == "recip":
        return x.recip()
    if name == "sqrt":
        return x.pow(E(Fr(1, 2)))
    if name == "cbrt":
        return x.pow(E(Fr(1, 3)))
    if name == "log":
        return apply_fn("ln", x) * apply_fn("ln", extra).recip()
    if name in ("powi", "powf"):
        return x.pow(DOM.exponent(extra))
    if name == "tan":
        return apply_fn("sin", x) * apply_fn("cos", x).recip()
    if name == "tanh":
        return apply_fn("sinh", x) * apply_fn("cosh", x).recip()
    return apply_fn(name, x)


def dx(a):
    return Poly.const(1) if a == ("v", "self.re", ()) else None


def dualnum_impl(F, ty):
    imps = F.impls_of("DualNum", ty)
    return imps[0] if len(imps) == 1 else None


def chain_rule_body(F, ty):
    bs = F.find_method(ty, "chain_rule", None)
    return bs[0] if len(bs) == 1 else None


# ------------------------------------------------------------------------------------------------
def check_arith(chk, F, traits=("Mul", "Div", "Add", "Sub"), neg=True, types=TYPES, tag="arith"):
    """product / quotient / sum / difference / negation of two dual numbers == truncated Taylor algebra,
    every part, every presence pattern"""
    A, B = Poly.var("a.re"), Poly.var("b.re")
    bases = {"Mul": A * B, "Div": A * B.recip(), "Add": A + B, "Sub": A - B}
    for ty in types:
        for trait in traits:
            body = refref_binop(F, ty, trait)
            if body is None:
                chk.undecide("%s|%s|%s" % (tag, trait.lower(), ty), "missing anchor: impl %s<&%s> for &%s" % (trait, ty, ty))
                continue
            chk.count("binary operator bodies")
            for pa in presence_patterns(ty):
                for pb in presence_patterns(ty):
                    sp = Spec(ty, absent_set("a", pa) | absent_set("b", pb))
                    key = "%s|%s|%s|presence=%s%s" % (tag, trait.lower(), ty, pres_tag(pa), pres_tag(pb))
                    try:
                        want = sp.spec_of_real(bases[trait])
                        for sfx, r, _ in all_paths(F, body, lambda: [sp.operand("a", pa), sp.operand("b", pb)]):
                            compare_parts(chk, key + sfx, "%s of two %s == Leibniz/quotient rule of the truncated algebra" % (trait, ty),
                                          body_loc(F, body), sp, r, want)
                        chk.count("operator evaluations")
                    except Unsupported as ex:
                        chk.undecide(key, "unsupported construct: %s" % ex, body_loc(F, body))
        if neg:
            body = ref_unop(F, ty, "Neg")
            if body is None:
                chk.undecide("%s|neg|%s" % (tag, ty), "missing anchor: impl Neg for &%s" % ty)
                continue
            chk.count("unary operator bodies")
            for pa in presence_patterns(ty):
                sp = Spec(ty, absent_set("a", pa))
                key = "%s|neg|%s|presence=%s" % (tag, ty, pres_tag(pa))
                try:
                    want = sp.spec_of_real(-Poly.var("a.re"))
                    for sfx, r, _ in all_paths(F, body, lambda: [sp.operand("a", pa)]):
                        compare_parts(chk, key + sfx, "negation of %s is part-wise" % ty, body_loc(F, body), sp, r, want)
                except Unsupported as ex:
                    chk.undecide(key, "unsupported construct: %s" % ex, body_loc(F, body))


def check_chain_rules(chk, F, types=TYPES, tag="chain"):
    """each type's chain rule == truncated Faa di Bruno formula (formal differentiation of F0(self.re))"""
    for ty in types:
        body = chain_rule_body(F, ty)
        if body is None:
            chk.undecide("%s|%s" % (tag, ty), "missing anchor: inherent fn chain_rule of %s" % ty)
            continue
        nf = len(body["params"]) - 1
        chk.ob("%s|%s|arity" % (tag, ty), nf == ORDER[ty] + 1, "chain rule takes order+1 derivative values",
               body_loc(F, body), found=nf, required=ORDER[ty] + 1, nontrivial=False)
        chk.count("chain rule bodies")
        for pa in presence_patterns(ty):
            sp = Spec(ty, absent_set("self", pa))
            key = "%s|%s|presence=%s" % (tag, ty, pres_tag(pa))
            try:
                want = sp.spec_lift()
                for sfx, r, _ in all_paths(F, body, lambda: [sp.operand("self", pa)] + [Sc(Poly.var("F%d" % k)) for k in range(nf)]):
                    compare_parts(chk, key + sfx, "chain rule of %s == Faa di Bruno truncated to its parts" % ty,
                                  body_loc(F, body), sp, r, want)
            except Unsupported as ex:
                chk.undecide(key, "unsupported construct: %s" % ex, body_loc(F, body))


class ChainCall:
    def __init__(self, operand, fs):
        self.operand = operand
        self.fs = fs


def chain_hook(ty):
    def h(it, body, args):
        if body.get("name") == "chain_rule":
            imp = body.get("_impl")
            if imp and it.F.adt_name(imp["self"]) == ty:
                return Rec("ChainCall", {"operand": args[0], "fs": Tup(args[1:])})
        return NotImplemented
    return h


def exponent_cases(name):
    """sample values steering the symbolic exponent through the special-case arms"""
    if name == "powi":
        return [("n=0", Fr(0)), ("n=1", Fr(1)), ("n=2", Fr(2)), ("general", Fr(7)), ("general-negative", Fr(-5))]
    return [("n=0", Fr(0)), ("n=1", Fr(1)), ("n~2", Fr(2)), ("general", Fr(7, 3)), ("general-negative", Fr(-5, 2))]


def method_args(F, body, sp, presence=None, opname="self"):
    """argument builder for a DualNum item: self + symbolic extra parameter"""
    name = body["name"]
    n_extra = len(body["params"]) - 1

    def build():
        args = [sp.operand(opname, presence)]
        if n_extra == 1:
            if name in ("powi", "powf"):
                args.append(Sc(N))
            elif name == "log":
                args.append(Sc(BASE))
            else:
                args.append(None)
        return args
    return build


def check_closed_forms(chk, F, types=TYPES, tag="closed"):
    """f0 link and derivative links of every closed-form item of impl DualNum for each type"""
    n_links = 0
    for ty in types:
        imp = dualnum_impl(F, ty)
        if imp is None:
            chk.undecide("%s|%s" % (tag, ty), "missing anchor: impl DualNum for %s" % ty)
            continue
        order = ORDER[ty]
        sp = Spec(ty)
        for name in UNARY + ["log", "powi", "powf", "sin_cos"]:
            body = F.impl_item(imp, name)
            if body is None:
                chk.undecide("%s|%s|%s" % (tag, ty, name), "missing anchor: DualNum::%s for %s" % (name, ty))
                continue
            chk.count("closed-form bodies")
            cases = exponent_cases(name) if name in ("powi", "powf") else [("", None)]
            for cname, nval in cases:
                if name in ("powi", "powf") and not cname.startswith("general"):
                    continue  # special arms are checked end-to-end (C09)
                env = {("c", "EPS"): EPS_VALUE}
                if nval is not None:
                    env[("c", "n")] = nval
                try:
                    paths = run_paths(F, body, method_args(F, body, sp), hooks=[chain_hook(ty)], oracle=sample_oracle(env))
                except Unsupported as ex:
                    chk.undecide("%s|%s|%s" % (tag, ty, name), "unsupported construct: %s" % ex, body_loc(F, body))
                    continue
                for ctx, val, it, args in paths:
                    calls = []
                    v = unref(val)
                    if isinstance(v, Rec) and v.adt == "ChainCall":
                        calls = [(name, v)]
                    elif isinstance(v, Tup) and name == "sin_cos" and len(v.vs) == 2:
                        calls = [("sin", unref(v.vs[0])), ("cos", unref(v.vs[1]))]
                    else:
                        chk.ob("%s|%s|%s|shape" % (tag, ty, name), False,
                               "closed-form item passes (self, f0..f_order) to the type's chain rule",
                               body_loc(F, body), found=repr(v)[:200], required="Self::chain_rule(self, f0, ...)")
                        continue
                    for fname, cc in calls:
                        if not (isinstance(cc, Rec) and cc.adt == "ChainCall"):
                            chk.ob("%s|%s|%s|shape" % (tag, ty, name), False, "sin_cos returns two chain-rule results",
                                   body_loc(F, body), found=repr(cc)[:200])
                            continue
                        kp = "%s|%s|%s" % (tag, ty, fname if name == "sin_cos" else name)
                        if name == "sin_cos":
                            kp += "(sin_cos)"
                        if cname:
                            kp += "|" + cname
                        fs = [unref(f) for f in cc.f["fs"].vs]
                        opnd = unref(cc.f["operand"])
                        same = isinstance(opnd, Rec) and all(
                            equal(value_part_poly(opnd, fl), value_part_poly(sp.operand("self"), fl)) for fl, _ in sp.parts())
                        chk.ob(kp + "|operand", same, "the chain rule is applied to self", body_loc(F, body),
                               found=repr(opnd)[:200], required="self", nontrivial=False)
                        chk.ob(kp + "|arity", len(fs) == order + 1, "exactly order+1 derivative values are passed",
                               body_loc(F, body), found=len(fs), required=order + 1, nontrivial=False)
                        if not all(isinstance(f, Sc) for f in fs):
                            chk.ob(kp + "|values", False, "derivative values are scalars of the inner type", body_loc(F, body))
                            continue
                        extra = N if name in ("powi", "powf") else (BASE if name == "log" else None)
                        want0 = real_fn(fname, X, extra)
                        ok0 = decide_equal(chk, kp + "|f0", fs[0].v, want0, body_loc(F, body))
                        if ok0 is not None:
                            chk.ob(kp + "|f0", ok0, "f0 is the function itself applied to the real part", body_loc(F, body),
                                   found=fs[0].v.show(), required=want0.show())
                        for k in range(min(len(fs), order + 1) - 1):
                            try:
                                d = diff(fs[k].v, dx)
                                ok = decide_equal(chk, kp + "|f%d->f%d" % (k, k + 1), fs[k + 1].v, d, body_loc(F, body))
                                n_links += 1
                                if ok is None:
                                    continue
                                n_links -= 1
                                chk.ob(kp + "|f%d->f%d" % (k, k + 1), ok,
                                       "f%d is the derivative of f%d with respect to the real part" % (k + 1, k),
                                       body_loc(F, body), found=fs[k + 1].v.show(), required=d.show(),
                                       detail=None if ok else "d/dx(%s) = %s" % (fs[k].v.show(), d.show()))
                                n_links += 1
                            except Unsupported as ex:
                                chk.undecide(kp + "|f%d->f%d" % (k, k + 1), "unsupported: %s" % ex, body_loc(F, body))
    chk.count("derivative links", n_links)
    new_closed_forms(chk, F, types, tag)
    return n_links


KNOWN_ITEMS = None


def new_closed_forms(chk, F, types, tag):
    """interface items the tables do not know (a NEW elementary function): whatever real function they compute, their closed form must
    be internally consistent — the chain rule is applied to self with order+1 values and f(k+1) is the formal derivative of f(k)"""
    known = set(UNARY) | {"log", "powi", "powf", "powd", "sin_cos", "tan", "tanh", "atan2", "sph_j0", "sph_j1", "sph_j2", "mul_add", "re",
                          "from_inner", "recip", "sqrt", "cbrt"}
    for ty in types:
        imp = dualnum_impl(F, ty)
        if imp is None:
            continue
        sp = Spec(ty)
        order = ORDER[ty]
        for it_ in imp["items"]:
            name = it_["name"]
            body = F.bodies.get(it_["did"])
            if name in known or body is None or len(body.get("params", [])) != 1:
                continue
            kp = "%s|%s|%s(new item)" % (tag, ty, name)
            try:
                paths = run_paths(F, body, method_args(F, body, sp), hooks=[chain_hook(ty)], oracle=sample_oracle({("c", "EPS"): EPS_VALUE}))
            except Unsupported as ex:
                chk.undecide(kp, "unsupported: %s" % ex, body_loc(F, body))
                continue
            for ctx, val, it, args in paths:
                cc = unref(val)
                if not (isinstance(cc, Rec) and cc.adt == "ChainCall"):
                    chk.undecide(kp, "unsupported: a new interface item that is not of the closed-form shape (f0.. passed to the chain rule)",
                                 body_loc(F, body))
                    break
                fs = [unref(f) for f in cc.f["fs"].vs]
                opnd = unref(cc.f["operand"])
                same = isinstance(opnd, Rec) and all(
                    equal(value_part_poly(opnd, fl), value_part_poly(sp.operand("self"), fl)) for fl, _ in sp.parts())
                chk.ob(kp + "|operand", same, "the chain rule is applied to self", body_loc(F, body), found=repr(opnd)[:200], nontrivial=False)
                chk.ob(kp + "|arity", len(fs) == order + 1, "exactly order+1 derivative values are passed", body_loc(F, body),
                       found=len(fs), required=order + 1, nontrivial=False)
                if not all(isinstance(f, Sc) for f in fs):
                    continue
                for k in range(min(len(fs), order + 1) - 1):
                    try:
                        d = diff(fs[k].v, dx)
                        ok = decide_equal(chk, kp + "|f%d->f%d" % (k, k + 1), fs[k + 1].v, d, body_loc(F, body))
                        if ok is not None:
                            chk.ob(kp + "|f%d->f%d" % (k, k + 1), ok, "f%d is the derivative of f%d with respect to the real part "
                                   "(whatever function the new item computes)" % (k + 1, k), body_loc(F, body),
                                   found=fs[k + 1].v.show()[:200], required=d.show()[:200])
                    except Unsupported as ex:
                        chk.undecide(kp + "|f%d->f%d" % (k, k + 1), "unsupported: %s" % ex, body_loc(F, body))
            chk.count("new closed-form items")


def end_to_end(chk, F, ty, name, tag, real_of, n_operands=1, exponent_case=None, all_presence=True,
               path_filter=None, rule=None):
    """whole-method obligation: every part of the result == formal derivatives of the real function,
    for every presence pattern and along every path of the decision tree"""
    imp = dualnum_impl(F, ty)
    body = F.impl_item(imp, name) if imp else None
    if body is None:
        chk.undecide("%s|%s|%s" % (tag, ty, name), "missing anchor: DualNum::%s for %s" % (name, ty))
        return
    pats = presence_patterns(ty) if all_presence else [None if not GRADINGS[ty]["vec"] else presence_patterns(ty)[-1]]
    for pa in pats:
        pbs = pats if n_operands == 2 else [None]
        for pb in pbs:
            sp = Spec(ty, absent_set("self", pa) | (absent_set("other", pb) if n_operands == 2 else set()))
            env = {("c", "EPS"): EPS_VALUE}
            cname = ""
            if exponent_case is not None:
                cname, nval = exponent_case
                env[("c", "n")] = nval

            def build():
                args = [sp.operand("self", pa)]
                if n_operands == 2:
                    args.append(sp.operand("other", pb))
                elif len(body["params"]) == 2:
                    args.append(Sc(N) if name in ("powi", "powf") else Sc(BASE))
                return args
            key0 = "%s|%s|%s%s|presence=%s%s" % (tag, ty, name, ("|" + cname) if cname else "", pres_tag(pa),
                                                 pres_tag(pb) if n_operands == 2 else "")
            try:
                paths = run_paths(F, body, build, oracle=sample_oracle(env))
            except Unsupported as ex:
                chk.undecide(key0, "unsupported construct: %s" % ex, body_loc(F, body))
                continue
            for ctx, val, it, args in paths:
                pd = path_descr(ctx)
                if path_filter is not None and not path_filter(ctx):
                    continue
                key = key0 if len(paths) == 1 else key0 + "|path=" + pd
                base = real_of(ctx)
                if base is None:
                    continue
                want = sp.spec_of_real(base)
                if isinstance(val, PanicEx):
                    chk.ob(key, False, rule or "method is total on its domain", body_loc(F, body), found="panic: %s" % val.what)
                    continue
                try:
                    compare_parts(chk, key, rule or ("DualNum::%s on %s == lifting of its real function" % (name, ty)),
                                  body_loc(F, body), sp, val, want)
                    chk.count("end-to-end evaluations")
                except Unsupported as ex:
                    chk.undecide(key, "unsupported: %s" % ex, body_loc(F, body))
