"""C09 — power functions are correct for every exponent."""
from .. import facts
from ..report import Check
from .. import walk
from . import algebra
from .algebra import X, N, real_fn
from .c07 import pow_real
from .common import *

I32_MIN, I32_MAX = -2 ** 31, 2 ** 31 - 1
N_BOUND = 2 ** 30


def run(tier):
    chk = Check("C09", tier, "proof",
                "powi/powf: every decision-tree arm (n=0, n=1, n=2 / |n-2|<eps, general with symbolic n, negative n) is "
                "evaluated to canonical form with symbolic exponent and compared with the formal derivatives of x^n for all "
                "parts and presence patterns; powd (default and overrides) equals the lifting of exp(n ln x) in both operands; "
                "integer range analysis: every i32-typed arithmetic sub-expression of powi stays inside i32 for |n| <= 2^30 "
                "(interval arithmetic; a violation is reported only with an exact witness exponent); float instances forward to std; "
                "the power items of nalgebra's ComplexField impls (powi, powf and powc with a dual exponent, sqrt, cbrt, recip) equal the same liftings",
                assumptions=["identities over the reals; overflow/underflow of x^(n-3) in floats is not decided",
                             "the |n-2|<eps arm is compared with x^2 (equal up to the guard's tolerance)"],
                trusted_base=["rustc type checker and name resolution", "ndv-export", "ndvlib/poly.py", "gradings (A.1)"])
    F = facts.load("default")
    for ty in TYPES:
        for name in ("powi", "powf"):
            for case in algebra.exponent_cases(name):
                algebra.end_to_end(chk, F, ty, name, "pow", lambda ctx, case=case: pow_real(case), exponent_case=case,
                                   all_presence=(tier == "thorough" or not GRADINGS[ty]["vec"] or ty == "DualVec"))
        check_powd(chk, F, ty)
        check_i32_ranges(chk, F, ty)
        check_roots(chk, F, ty)
    check_float_forwards(chk, F)
    # the power items of nalgebra's field interface (powi / powf / powc with a DUAL exponent / sqrt / cbrt / recip) are the same powers
    from . import c11
    for ty in c11.FIELD4:
        c11.complex_field(chk, F, ty, thorough=True, branches=False, only=("powi", "powf", "powc", "sqrt", "cbrt", "recip"))
    chk.floor("ComplexField forwarding items", chk.analysed.get("ComplexField forwarding items", 0), 4 * 6)
    from . import c17
    c17.python_wrappers(chk, {"powi", "powf", "powd", "sqrt", "cbrt", "recip"})
    # the items above are compositions of the operator / compound-assignment / iterator forms of the dual types and, for the vector types,
    # of the derivative container's operations (a clean-up may switch from `a * b` to `a *= b`, from a loop to `.sum()`, from `1/x` to
    # `inv()`): every such form is the truncated-algebra operation on every path and for every presence pattern (rule sets of C08 / C07)
    from . import container, c08
    container.check_L1(chk, F)
    for ty in TYPES:
        c08.check_type(chk, F, ty, thorough=False)
    chk.floor("powi bodies range-analysed", chk.analysed.get("powi bodies range-analysed", 0), 8)
    chk.floor("end-to-end evaluations", chk.analysed.get("end-to-end evaluations", 0), 8 * 10)
    return chk.finish()


def check_roots(chk, F, ty):
    """recip / sqrt / cbrt agree with the power function: same canonical form as x^-1, x^(1/2), x^(1/3)"""
    for name in ("recip", "sqrt", "cbrt"):
        algebra.end_to_end(chk, F, ty, name, "pow", lambda ctx, name=name: real_fn(name, X), all_presence=False)


def powd_body(F, ty):
    imp = algebra.dualnum_impl(F, ty)
    b = F.impl_item(imp, "powd") if imp else None
    if b is not None:
        return b, True
    tr = F.traits.get("DualNum")
    if tr:
        for it in tr["items"]:
            if it["name"] == "powd":
                return F.bodies.get(it["did"]), False
    return None, False


def check_powd(chk, F, ty):
    body, override = powd_body(F, ty)
    if body is None:
        chk.undecide("pow|%s|powd" % ty, "missing anchor: DualNum::powd")
        return
    A, B = Poly.var("self.re"), Poly.var("other.re")
    base = apply_fn("exp", apply_fn("ln", A) * B)
    pats = presence_patterns(ty)
    sel = [pats[-1], pats[0]] if len(pats) > 1 else pats
    for pa in sel:
        for pb in sel:
            sp = Spec(ty, absent_set("self", pa) | absent_set("other", pb))
            key = "pow|%s|powd%s|presence=%s%s" % (ty, "(override)" if override else "", pres_tag(pa), pres_tag(pb))
            try:
                for sfx, r, _ in all_paths(F, body, lambda: [sp.operand("self", pa), sp.operand("other", pb)]):
                    compare_parts(chk, key + sfx, "powd is the lifting of exp(n ln x) in base and exponent", body_loc(F, body), sp, r,
                                  sp.spec_of_real(base))
                chk.count("powd evaluations")
            except Unsupported as ex:
                chk.undecide(key, "unsupported: %s" % ex, body_loc(F, body))


# ---------------------------------------------------------------- integer ranges (domain I)
def imul(a, b):
    ps = [a[0] * b[0], a[0] * b[1], a[1] * b[0], a[1] * b[1]]
    return (min(ps), max(ps))


def interval(F, e, params):
    k = e["k"]
    if k == "lit" and e["lit"]["k"] == "int":
        v = int(e["lit"]["v"])
        return (v, v)
    if k == "path" and e["res"]["r"] == "local":
        if e["res"]["id"] in params:
            return (-N_BOUND, N_BOUND)
        return None
    if k == "bin":
        a, b = interval(F, e["a"], params), interval(F, e["b"], params)
        if a is None or b is None:
            return None
        if e["op"] == "+":
            return (a[0] + b[0], a[1] + b[1])
        if e["op"] == "-":
            return (a[0] - b[1], a[1] - b[0])
        if e["op"] == "*":
            return imul(a, b)
        return None
    if k == "un" and e["op"] == "-":
        a = interval(F, e["a"], params)
        return None if a is None else (-a[1], -a[0])
    if k in ("cast", "block") and k == "cast":
        return interval(F, e["a"], params)
    return None


def exact(F, e, params, n):
    """exact value of an integer expression at exponent n, and the first sub-expression leaving i32"""
    k = e["k"]
    if k == "lit":
        return int(e["lit"]["v"]), None
    if k == "path":
        return n, None
    if k == "bin":
        a, wa = exact(F, e["a"], params, n)
        b, wb = exact(F, e["b"], params, n)
        if wa or wb:
            return None, wa or wb
        v = {"+": a + b, "-": a - b, "*": a * b}[e["op"]]
        if not (I32_MIN <= v <= I32_MAX):
            return v, (e, v)
        return v, None
    if k == "un":
        a, wa = exact(F, e["a"], params, n)
        if wa:
            return None, wa
        v = -a
        if not (I32_MIN <= v <= I32_MAX):
            return v, (e, v)
        return v, None
    if k == "cast":
        return exact(F, e["a"], params, n)
    raise Unsupported("integer expression")


def is_i32(F, e):
    t = F.ty(e["t"])
    return t["k"] == "prim" and t["n"] == "i32"


def check_i32_ranges(chk, F, ty):
    imp = algebra.dualnum_impl(F, ty)
    body = F.impl_item(imp, "powi") if imp else None
    if body is None:
        chk.undecide("range|%s|powi" % ty, "missing anchor")
        return
    chk.count("powi bodies range-analysed")
    params = set()
    for p in body["params"]:
        if p.get("k") == "bind" and F.ty(p["t"])["k"] == "prim" and F.ty(p["t"])["n"] == "i32":
            params.add(p["id"])
    # maximal i32 arithmetic expressions
    seen = set()
    roots = []

    def visit(e, parent_arith):
        arith = is_i32(F, e) and e["k"] in ("bin", "un")
        if arith and not parent_arith:
            roots.append(e)
        for c in walk.children(e):
            visit(c, arith)
    visit(body["body"], False)
    from ..hirpp import expr_s
    idx = 0
    for r in roots:
        # every arithmetic node inside the maximal expression
        for e in walk.walk(r):
            if not (is_i32(F, e) and e["k"] in ("bin", "un")):
                continue
            text = expr_s(e)
            key = "range|%s|powi|%s" % (ty, text.replace(" ", ""))
            if key in seen:
                continue
            seen.add(key)
            chk.count("i32 arithmetic sub-expressions")
            iv = interval(F, e, params)
            loc = F.loc(e["l"])
            if iv is not None and I32_MIN <= iv[0] and iv[1] <= I32_MAX:
                chk.ob(key, True, "i32 sub-expression stays in range for |n| <= 2^30", loc, found=str(iv))
                continue
            # look for an exact witness
            wit = None
            for n in (N_BOUND, -N_BOUND, 46342, -46341, 1292, -1290, 70000, -70000, 3, -3):
                try:
                    v, w = exact(F, e, params, n)
                except Unsupported:
                    w = None
                    break
                if w is not None and w[0] is e:
                    wit = (n, w[1])
                    break
            if wit:
                chk.ob(key, False, "i32 sub-expression overflows for an exponent within |n| <= 2^30", loc,
                       found="%s = %d at n = %d (outside i32)" % (text, wit[1], wit[0]), required="value within [-2^31, 2^31-1]")
            elif iv is None:
                chk.undecide(key, "integer expression outside the interval fragment", loc)
            else:
                # interval too wide but no witness from the candidate set: children may already be reported
                child_over = any(is_i32(F, c) and c["k"] in ("bin", "un") for c in walk.children(e))
                if not child_over:
                    chk.undecide(key, "interval %s exceeds i32 but no witness found" % (iv,), loc)


# ---------------------------------------------------------------- float instances
def check_float_forwards(chk, F):
    want = {"powi": "powi", "powf": "powf", "powd": "powf", "recip": "recip", "sqrt": "sqrt", "cbrt": "cbrt"}
    n = 0
    for fl in ("f32", "f64"):
        imps = [i for i in F.impls_of("DualNum") if F.ty(i["self"]).get("n") == fl]
        if len(imps) != 1:
            chk.undecide("float|%s" % fl, "missing anchor: impl DualNum<%s> for %s" % (fl, fl))
            continue
        for name, std in want.items():
            body = F.impl_item(imps[0], name)
            key = "float|%s|%s" % (fl, name)
            if body is None:
                chk.undecide(key, "missing anchor")
                continue
            ok, found = forwards_to_std(F, body, fl, std)
            chk.ob(key, ok, "plain-float %s forwards to the standard library %s::%s with arguments in order" % (name, fl, std),
                   body_loc(F, body), found=found, required="%s::%s(*self, args...)" % (fl, std), nontrivial=False)
            n += 1
    chk.count("float power forwards", n)


def strip(e):
    while e["k"] in ("block",) and not e["b"]["stmts"] and e["b"].get("tail"):
        e = e["b"]["tail"]
    return e


def forwards_to_std(F, body, fl, std, depth=0):
    """body is `<fl>::std(*self, p1, p2 ...)` with the parameters in declaration order (possibly through another item of the
    same plain-float impl that itself forwards to that std function)"""
    e = strip(body["body"])
    from ..hirpp import expr_s
    found = expr_s(e)
    if e["k"] not in ("call", "mcall"):
        return False, found
    c = walk.callee_of(e)
    if not c:
        return False, found
    inst = c.get("inst") or {}
    if (c.get("local") or inst.get("local")) and depth < 2:
        # a call of another DualNum item of the same float type with the arguments in order
        tgt = F.bodies.get(inst.get("did") or c.get("did"))
        args = ([e["recv"]] + e["args"]) if e["k"] == "mcall" else e["args"]
        ids = [p.get("id") for p in body["params"]]
        ok_args = len(args) == len(ids)
        for a, pid in zip(args, ids):
            while a["k"] in ("un", "addr") and (a["k"] == "addr" or a["op"] == "deref"):
                a = a["a"]
            ok_args = ok_args and a["k"] == "path" and a["res"].get("r") == "local" and a["res"].get("id") == pid
        if tgt is not None and ok_args and tgt.get("_impl") is body.get("_impl"):
            return forwards_to_std(F, tgt, fl, std, depth + 1)
        return False, found
    if e["k"] != "call" or c.get("local"):
        return False, found
    path = c.get("path", "")
    if not (path.endswith("::" + std) and (("<impl %s>" % fl) in path or path.startswith(fl + "::") or ("::" + fl + "::") in path or ("f%s" % fl[1:]) in path)):
        return False, found
    ids = [p.get("id") for p in body["params"]]
    args = e["args"]
    if len(args) != len(ids):
        return False, found
    for a, pid in zip(args, ids):
        while a["k"] in ("un",) and a["op"] == "deref":
            a = a["a"]
        if not (a["k"] == "path" and a["res"]["r"] == "local" and a["res"]["id"] == pid):
            return False, found
    return True, found
