"""C10 — smooth special points yield finite derivatives (domain B: finiteness / sign classes)."""
from .. import facts
from ..report import Check
from ..domb import DomB, BV, of_const, FINITE, ZERO, POS, NEG, bv_oracle
from ..interp import Ref
from . import algebra
from .common import *

ANYFIN = [NEG, ZERO, POS]


def b_operand(ty, re_bv, presence=None):
    g = GRADINGS[ty]
    f = {}
    for field, pd in g["parts"]:
        if not pd:
            f[field] = Sc(re_bv)
        elif g["vec"]:
            present = True if presence is None else presence.get(field, True)
            f[field] = Rec("Derivative", {"0": Opt(True, Mat(BV(ANYFIN), g["shapes"][field])) if present else Opt(False), "1": PHANTOM})
        else:
            f[field] = Sc(BV(ANYFIN))
    f["f"] = PHANTOM
    return Rec(ty, f)


def parts_classes(v, ty):
    out = {}
    v = unref(v)
    if not isinstance(v, Rec) or v.adt != ty:
        return None
    for field, pd in GRADINGS[ty]["parts"]:
        x = unref(v.f[field])
        if isinstance(x, Sc):
            out[field] = x.v
        else:
            o = unref(x.f["0"])
            out[field] = unref(o.v).p if o.some else of_const(0)
    return out


def horner_hook(it, body, args):
    """polevl / p1evl: Horner evaluation over a constant table.  At an argument with real part exactly 0 the value is the
    last coefficient (proved summary: acc*0 + c = c in every step); the derivative parts are finite combinations of finite
    quantities when the argument's parts are finite."""
    hc = horner_call(it.F, body, args)
    if hc is not None:
        x, coef = hc[1], Tup(list(hc[2]))
        if isinstance(coef, Tup) and coef.vs:
            last = unref(coef.vs[-1])
            if isinstance(x, Rec):
                pc = parts_classes(x, x.adt)
                allfin = all(b.finite() for b in pc.values())
                re = pc["re"]
                new = {}
                for k, val in x.f.items():
                    new[k] = val
                r = Rec(x.adt, dict(x.f))
                if re.ex == 0 and isinstance(last, Sc):
                    r.f["re"] = Sc(last.v)
                else:
                    r.f["re"] = Sc(BV(ANYFIN if re.finite() else list(re.cls)))
                for field, pd in GRADINGS[x.adt]["parts"]:
                    if not pd:
                        continue
                    cur = unref(x.f[field])
                    fin = BV(ANYFIN) if allfin else BV(list(FINITE) + ["nan"])
                    if isinstance(cur, Sc):
                        r.f[field] = Sc(fin)
                    else:
                        o = unref(cur.f["0"])
                        r.f[field] = Rec("Derivative", {"0": Opt(True, Mat(fin, unref(o.v).shape)) if o.some else Opt(False), "1": PHANTOM})
                return r
            if isinstance(x, Sc):
                if x.v.ex == 0 and isinstance(last, Sc):
                    return Sc(last.v)
                return Sc(BV(ANYFIN if x.v.finite() else list(x.v.cls)))
    return NotImplemented


def run(tier):
    chk = Check("C10", tier, "other",
                "abstract interpretation in a finiteness/sign domain ({NaN, -inf, neg, 0, pos, +inf} with exact constants and an interval for "
                "the power exponent) of the code as written (not of its canonical form): at every enumerated special point — powi at 0 for "
                "n = 0, 1, 2 and integers >= 3; powf at 0 for n = 0, 1, 2, integers >= 3 and non-integers above the order of the type; atan2 on "
                "either axis away from the origin; sph_j0/1/2, bessel_j0/1/2, exp_m1, ln_1p at 0 — with arbitrary finite derivative parts of "
                "the operand, every part of the result must be finite on every path (no 0*inf, 0/0, inf-inf). Equality with the mathematical "
                "value then follows from C01/C09/C15 because the formal identities become identities of finite numbers.",
                assumptions=["finite*finite and finite+finite are finite (no overflow)",
                             "immediate floating-point neighbours of the special points are not analysed",
                             "Horner evaluation at 0 returns the last coefficient (summary used for polevl/p1evl)"],
                trusted_base=["rustc type checker and name resolution", "ndv-export", "ndvlib/interp.py", "ndvlib/domb.py transfer functions"])
    F = facts.load("default")
    ACTIVE_POINTS[0] = POINTS + MORE_POINTS if tier == "thorough" else POINTS
    for ty in TYPES:
        powers(chk, F, ty)
        atan2_axes(chk, F, ty)
        unary_at_zero(chk, F, ty)
        bessel_at_zero(chk, F, ty)
    float_special(chk, F)
    values_at_special_points(chk, F)
    # integer powers at zero are also reached as products (`x * x * x`, Product over an iterator): every operator / iterator form of the
    # arithmetic is the truncated-algebra operation on every path — a shortcut on a zero real part must not drop derivative parts (C08 rules)
    from . import c08
    for ty in TYPES:
        c08.check_type(chk, F, ty, thorough=False)
    chk.floor("special-point evaluations", chk.analysed.get("special-point evaluations", 0), 8 * 15)
    return chk.finish()


def float_special(chk, F):
    """the plain-float instances of the interface (the order-0 base case) at the same special points"""
    for fl in ("f32", "f64"):
        imps = [i for i in F.impls_of("DualNum") if F.ty(i["self"]).get("n") == fl]
        if len(imps) != 1:
            chk.undecide("special|%s" % fl, "missing anchor: impl DualNum<%s> for %s" % (fl, fl))
            continue
        for name in ("sph_j0", "sph_j1", "sph_j2"):
            body = F.impl_item(imps[0], name)
            if body is None:
                chk.undecide("special|%s|%s" % (fl, name), "missing anchor")
                continue
            for pname, val in ACTIVE_POINTS[0]:
                key = "special|%s|%s|%s" % (fl, name, pname)
                try:
                    paths = run_b(F, body, lambda: [Sc(BV(["zero"] if val == 0 else (["pos"] if val > 0 else ["neg"]), ex=val))])
                    chk.count("special-point evaluations")
                    for ctx, v in paths:
                        v = unref(v)
                        ok = isinstance(v, Sc) and v.v.finite()
                        chk.ob(key, ok, "%s on plain floats at %s: the result is finite" % (name, pname), body_loc(F, body),
                               found=v.v.show() if isinstance(v, Sc) else repr(v)[:80], detail="path: " + short(path_descr(ctx)))
                except Unsupported as ex:
                    chk.undecide(key, "unsupported: %s" % ex, body_loc(F, body))


def values_at_special_points(chk, F):
    """'... and equals the mathematical value': at 0 and its neighbours the arm taken by the Bessel / spherical Bessel functions is
    the Maclaurin polynomial of the function (coefficients compared exactly, truncation adequate for the orders carried)"""
    from . import c14, c15
    tr = F.traits.get("bessel::BesselDual")
    if tr is None:
        chk.undecide("value|bessel", "missing anchor: trait BesselDual")
    else:
        for n in (0, 1, 2):
            body = {it["name"]: F.bodies.get(it["did"]) for it in tr["items"]}.get("bessel_j%d" % n)
            if body is None:
                chk.undecide("value|bessel|j%d" % n, "missing anchor")
                continue
            c14.small_series(chk, F, body, n)
        # ... and the derivative parts at 0 are those of that polynomial only if the interface items on the way (the reflection `abs`,
        # `signum`, the elementary functions) carry the derivative parts on the paths taken at a zero real part as well
        c14.interface_deps(chk, F)
        # ... decided on the bodies in dual mode at 0 (both signs of zero) and next to it
        c14.dual_lifting(chk, F, {it["name"]: F.bodies.get(it["did"]) for it in tr["items"]}, samples=c14.LIFT_SAMPLES[:3])
    from . import c01
    for ty in TYPES:
        imp = algebra.dualnum_impl(F, ty)
        for n in (0, 1, 2):
            body = F.impl_item(imp, "sph_j%d" % n) if imp else None
            if body is not None:
                c15.analyse(chk, F, body, ty, n, orders=list(range(0, ORDER[ty] + 1)), label=ty)
        # atan2 on the axes: both arms (atan(y/x), -atan(x/y)) carry the derivative parts of the two-argument arctangent
        c01.check_atan2(chk, F, ty, tag="value")


def run_b(F, body, build, hooks=None):
    dom = DomB()
    out = []

    def thunk(ctx):
        it = Interp(F, dom, ctx=ctx, hooks=hooks or [], extern=NALGEBRA)
        return it.call_body(body, build())
    for ctx, val in explore(thunk, bv_oracle, max_paths=64):
        out.append((ctx, val))
    return out


def verdict(chk, key, rule, F, body, ty, paths):
    chk.count("special-point evaluations")
    for ctx, val in paths:
        pd = path_descr(ctx)
        k = key if len(paths) == 1 else key + "|path=" + "".join("T" if b else "F" for (_, _, b, forced) in ctx.trace if not forced)
        if isinstance(val, PanicEx):
            chk.ob(k, False, rule, body_loc(F, body), found="panic: %s" % val.what)
            continue
        pc = parts_classes(val, ty)
        if pc is None:
            chk.ob(k, False, rule, body_loc(F, body), found=repr(val)[:120])
            continue
        bad = {f: b.show() for f, b in pc.items() if not b.finite()}
        chk.ob(k, not bad, rule, body_loc(F, body), detail="path: " + short(pd), found=("non-finite parts: %s" % bad) if bad else "all parts finite: %s" % {f: b.show() for f, b in pc.items()},
               required="every part in {neg, zero, pos}")


def short(s):
    import re
    s = re.sub(r"\{[^}]*\}", "", s)
    return s[:80]


def powers(chk, F, ty):
    imp = algebra.dualnum_impl(F, ty)
    order = ORDER[ty]
    zero = of_const(0)
    big = 2 ** 30
    cases = {
        "powi": [("n=0", of_const(0)), ("n=1", of_const(1)), ("n=2", of_const(2)),
                 ("n>=3", BV([POS], rng=(Fr(2), Fr(big + 1), True)))],
        "powf": [("n=0", of_const(0)), ("n=1", of_const(1)), ("n=2", of_const(2)),
                 ("n>=3 integer", BV([POS], rng=(Fr(2), None, True)))],
    }
    lo = order
    for (a, b) in ((1, 2), (2, 3), (3, None)):
        if a >= lo:
            cases["powf"].append(("n in (%s,%s) non-integer" % (a, b if b else "inf"), BV([POS], rng=(Fr(a), None if b is None else Fr(b), False))))
    for name in ("powi", "powf"):
        body = F.impl_item(imp, name) if imp else None
        if body is None:
            chk.undecide("special|%s|%s" % (ty, name), "missing anchor")
            continue
        for cname, nbv in cases[name]:
            key = "special|%s|%s|x=0,%s" % (ty, name, cname)
            try:
                paths = run_b(F, body, lambda: [b_operand(ty, zero), Sc(nbv)])
                verdict(chk, key, "%s at x = 0 with %s: every part finite (no 0*inf)" % (name, cname), F, body, ty, paths)
            except Unsupported as ex:
                chk.undecide(key, "unsupported: %s" % ex, body_loc(F, body))


def atan2_axes(chk, F, ty):
    imp = algebra.dualnum_impl(F, ty)
    body = F.impl_item(imp, "atan2") if imp else None
    if body is None:
        chk.undecide("special|%s|atan2" % ty, "missing anchor")
        return
    for cname, y, x in (("y>0,x=0", BV([POS]), of_const(0)), ("y<0,x=0", BV([NEG]), of_const(0)),
                        ("y=0,x>0", of_const(0), BV([POS])), ("y=0,x<0", of_const(0), BV([NEG]))):
        key = "special|%s|atan2|%s" % (ty, cname)
        try:
            paths = run_b(F, body, lambda: [b_operand(ty, y), b_operand(ty, x)])
            verdict(chk, key, "atan2 on a coordinate axis away from the origin (%s): every part finite" % cname, F, body, ty, paths)
        except Unsupported as ex:
            chk.undecide(key, "unsupported: %s" % ex, body_loc(F, body))


TINY = Fr(1, 2 ** 1074)   # the smallest positive f64: the immediate floating-point neighbours of 0
MIN_NORMAL = Fr(1, 2 ** 1022)
POINTS = (("x=0", Fr(0)), ("x=+tiny", TINY), ("x=-tiny", -TINY), ("x=+min_normal", MIN_NORMAL), ("x=-min_normal", -MIN_NORMAL))
# thorough tier: further neighbours on both sides — where x^2 / x^3 underflow, next to the machine-epsilon switch, the next subnormals
MORE_POINTS = tuple(("x=%s2^-%d" % ("+" if s_ > 0 else "-", k), s_ * Fr(1, 2 ** k)) for k in (1073, 1000, 700, 538, 537, 359, 358, 200, 60, 53)
                    for s_ in (1, -1))
ACTIVE_POINTS = [POINTS]


def unary_at_zero(chk, F, ty):
    imp = algebra.dualnum_impl(F, ty)
    for name in ("exp_m1", "ln_1p", "sph_j0", "sph_j1", "sph_j2"):
        body = F.impl_item(imp, name) if imp else None
        if body is None:
            chk.undecide("special|%s|%s|x=0" % (ty, name), "missing anchor")
            continue
        for pname, val in ACTIVE_POINTS[0]:
            key = "special|%s|%s|%s" % (ty, name, pname)
            try:
                paths = run_b(F, body, lambda: [b_operand(ty, BV(["zero"] if val == 0 else (["pos"] if val > 0 else ["neg"]), ex=val))])
                verdict(chk, key, "%s at %s (0 and its immediate floating-point neighbours, products of tiny numbers underflow to 0): "
                        "every part finite" % (name, pname), F, body, ty, paths)
            except Unsupported as ex:
                chk.undecide(key, "unsupported: %s" % ex, body_loc(F, body))


def bessel_at_zero(chk, F, ty):
    tr = F.traits.get("bessel::BesselDual")
    if tr is None:
        chk.undecide("special|%s|bessel" % ty, "missing anchor: trait BesselDual")
        return
    for it in tr["items"]:
        body = F.bodies.get(it["did"])
        if body is None:
            continue
        key = "special|%s|%s|x=0" % (ty, it["name"])
        try:
            paths = run_b(F, body, lambda: [b_operand(ty, of_const(0))], hooks=[horner_hook])
            verdict(chk, key, "%s at 0: every part finite" % it["name"], F, body, ty, paths)
        except Unsupported as ex:
            chk.undecide(key, "unsupported: %s" % ex, body_loc(F, body))
