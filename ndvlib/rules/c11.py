"""C11 — dual numbers satisfy nalgebra's real-field contract."""
from .. import facts
from ..report import Check
from ..interp import Ref, fn_n, DimV
from . import algebra, c01, c06
from .algebra import X, N, real_fn
from .common import *

FIELD4 = ["Dual", "DualVec", "Dual2", "Dual2Vec"]
A, B, C3 = Poly.var("a.re"), Poly.var("b.re"), Poly.var("c.re")

# RealField constant -> FloatConst constant (simba 0.9.1 `impl RealField for f64`; DESIGN A.3)
CONSTS = {"pi": "PI", "two_pi": "TAU", "frac_pi_2": "FRAC_PI_2", "frac_pi_3": "FRAC_PI_3", "frac_pi_4": "FRAC_PI_4",
          "frac_pi_6": "FRAC_PI_6", "frac_pi_8": "FRAC_PI_8", "frac_1_pi": "FRAC_1_PI", "frac_2_pi": "FRAC_2_PI",
          "frac_2_sqrt_pi": "FRAC_2_SQRT_PI", "e": "E", "log2_e": "LOG2_E", "log10_e": "LOG10_E", "ln_2": "LN_2", "ln_10": "LN_10"}

# ComplexField item -> (number of dual operands, real function of the operands' real parts)   (DESIGN A.5)
UN = ["recip", "sin", "cos", "tan", "asin", "acos", "atan", "sinh", "cosh", "tanh", "asinh", "acosh", "atanh", "log2", "log10",
      "ln", "ln_1p", "sqrt", "exp", "exp2", "exp_m1", "cbrt"]
CF = {name: (1, (lambda name: lambda: real_fn(name, A))(name)) for name in UN}
CF.update({
    "from_real": (1, lambda: A), "real": (1, lambda: A), "conjugate": (1, lambda: A),
    "imaginary": (1, lambda: Poly.const(0)),
    "modulus_squared": (1, lambda: A * A),
    "scale": (2, lambda: A * B), "unscale": (2, lambda: A * B.recip()),
    "mul_add": (3, lambda: A * B + C3),
    "hypot": (2, lambda: (A * A + B * B).pow(E(Fr(1, 2)))),
    "log": (2, lambda: apply_fn("ln", A) * apply_fn("ln", B).recip()),
    "powf": (2, lambda: apply_fn("exp", apply_fn("ln", A) * B)),
    "powc": (2, lambda: apply_fn("exp", apply_fn("ln", A) * B)),
})
PANIC_BY_DESIGN = ["floor", "ceil", "round", "trunc", "fract"]
ABS_LIKE = ["abs", "modulus", "norm1"]


def run(tier):
    chk = Check("C11", tier, "other",
                "RealField constants map to the FloatConst constant of the same mathematical name (table from simba's f64 impl) with "
                "zero derivative parts; every non-panicking ComplexField/RealField method is evaluated to canonical form and equals the "
                "lifting of the generic operation it must forward to (log with dual base, powf/powc with dual exponent, hypot, "
                "scale/unscale, abs-like on the sign arms); argument / try_sqrt / copysign / min / max / clamp are compared with the "
                "reference semantics of simba's f64 impl on all weak orderings (sign cases) of the real parts and return operands "
                "wholesale; SimdValue lane operations are part-wise with the same lane index and LANES = T::LANES",
                assumptions=["numeric agreement of the forwarded methods is C01; NaN orderings excluded",
                             "floor/ceil/round/trunc/fract panic by design and are excluded as the statement says"],
                trusted_base=["rustc type checker and name resolution", "ndv-export", "ndvlib/poly.py", "name tables DESIGN A.3/A.5"])
    F = facts.load("default")
    for ty in FIELD4:
        constants(chk, F, ty)
        complex_field(chk, F, ty, thorough=(tier == "thorough"))
        real_field(chk, F, ty)
        simd(chk, F, ty)
    simd_container(chk, F)
    # the items above are compositions of the operator / compound-assignment / iterator forms of the dual types and, for the vector types,
    # of the derivative container's operations (a clean-up may switch from `a * b` to `a *= b`, from a loop to `.sum()`, from `1/x` to
    # `inv()`): every such form is the truncated-algebra operation on every path and for every presence pattern (rule sets of C08 / C07)
    from . import container, c08
    container.check_L1(chk, F)
    for ty in TYPES:
        c08.check_type(chk, F, ty, thorough=False)
    chk.floor("RealField constants", chk.analysed.get("RealField constants", 0), 60)
    chk.floor("ComplexField forwarding items", chk.analysed.get("ComplexField forwarding items", 0), 4 * 36)
    chk.floor("SimdValue items", chk.analysed.get("SimdValue items", 0), 4 * 6)
    return chk.finish()


def the_impl(chk, F, trait, ty):
    imps = F.impls_of(trait, ty)
    if len(imps) != 1:
        chk.undecide("%s|%s" % (trait, ty), "missing anchor: impl %s for %s" % (trait, ty))
        return None
    return imps[0]


def constants(chk, F, ty):
    imp = the_impl(chk, F, "RealField", ty)
    if imp is None:
        return
    sp = Spec(ty)
    for name, cname in CONSTS.items():
        body = F.impl_item(imp, name)
        key = "const|%s|%s" % (ty, name)
        if body is None:
            chk.undecide(key, "missing anchor")
            continue
        chk.count("RealField constants")
        try:
            r = Interp(F, DOMK).call_body(body, [])
            compare_parts(chk, key, "RealField::%s() is the constant %s with zero derivative parts" % (name, cname), body_loc(F, body),
                          sp, r, sp.spec_of_real(Poly.sym(cname)))
        except Unsupported as ex:
            chk.undecide(key, "unsupported: %s" % ex, body_loc(F, body))
    for name, cname in (("min_value", "MIN_VALUE"), ("max_value", "MAX_VALUE")):
        body = F.impl_item(imp, name)
        key = "const|%s|%s" % (ty, name)
        if body is None:
            chk.undecide(key, "missing anchor")
            continue
        try:
            r = unref(Interp(F, DOMK).call_body(body, []))
            if isinstance(r, Opt) and r.some:
                compare_parts(chk, key, "%s is Some(constant T::%s)" % (name, name), body_loc(F, body), sp, r.v,
                              sp.spec_of_real(Poly.sym(cname)))
            else:
                chk.ob(key, False, "%s is Some(constant)" % name, body_loc(F, body), found=repr(r)[:100])
        except Unsupported as ex:
            chk.undecide(key, "unsupported: %s" % ex, body_loc(F, body))


def complex_field(chk, F, ty, thorough, branches=True, only=None):
    """only: restrict to the named forwarding items (C09 reuses the rule for the power items)"""
    imp = the_impl(chk, F, "ComplexField", ty)
    if imp is None:
        return
    names = ["a", "b", "c"]
    for name, (n, base) in CF.items():
        if only is not None and name not in only:
            continue
        body = F.impl_item(imp, name)
        key = "cf|%s|%s" % (ty, name)
        if body is None:
            chk.undecide(key, "missing anchor: ComplexField::%s for %s" % (name, ty))
            continue
        chk.count("ComplexField forwarding items")
        pres = two_presences(ty, n) if (thorough or n == 1) else None
        check_lifting(chk, key, "ComplexField::%s returns the generic dual operation it stands for" % name, F, body, ty,
                      names[:n], lambda ctx, base=base: base(), presences=pres)
    # powi with symbolic exponent (all arms)
    body = F.impl_item(imp, "powi")
    if only is not None and "powi" not in only:
        pass
    elif body is None:
        chk.undecide("cf|%s|powi" % ty, "missing anchor")
    else:
        chk.count("ComplexField forwarding items")
        from .c07 import pow_real
        for case in algebra.exponent_cases("powi"):
            env = {("c", "EPS"): EPS_VALUE, ("c", "n"): case[1]}
            check_lifting(chk, "cf|%s|powi|%s" % (ty, case[0]), "ComplexField::powi is DualNum::powi", F, body, ty, ["self"],
                          lambda ctx, case=case: pow_real(case), extra_args=[lambda: Sc(N)], env=env)
    if only is not None:
        return
    # sin_cos
    body = F.impl_item(imp, "sin_cos")
    if body is not None:
        chk.count("ComplexField forwarding items")
        sp = Spec(ty)
        try:
            r = unref(Interp(F, DOMK).call_body(body, [sp.operand("a")]))
            if isinstance(r, Tup) and len(r.vs) == 2:
                compare_parts(chk, "cf|%s|sin_cos|sin" % ty, "first component is sin", body_loc(F, body), sp, r.vs[0], sp.spec_of_real(apply_fn("sin", A)))
                compare_parts(chk, "cf|%s|sin_cos|cos" % ty, "second component is cos", body_loc(F, body), sp, r.vs[1], sp.spec_of_real(apply_fn("cos", A)))
            else:
                chk.ob("cf|%s|sin_cos" % ty, False, "sin_cos returns a pair", body_loc(F, body), found=repr(r)[:100])
        except Unsupported as ex:
            chk.undecide("cf|%s|sin_cos" % ty, "unsupported: %s" % ex, body_loc(F, body))
    else:
        chk.undecide("cf|%s|sin_cos" % ty, "missing anchor")
    # abs-like: sign arms
    for name in ABS_LIKE:
        body = F.impl_item(imp, name)
        key = "cf|%s|%s" % (ty, name)
        if body is None:
            chk.undecide(key, "missing anchor")
            continue
        chk.count("ComplexField forwarding items")
        sign_arms(chk, F, ty, body, key, "%s is the absolute value: +self on the positive arm, -self on the negative arm" % name,
                  lambda s: A if s > 0 else -A, zero_ok=(A, -A))
    if not branches:
        return
    # argument: 0 for re >= 0, pi otherwise (simba f64)
    body = F.impl_item(imp, "argument")
    if body is None:
        chk.undecide("cf|%s|argument" % ty, "missing anchor")
    else:
        chk.count("ComplexField branch items")
        by_sign(chk, F, ty, body, "cf|%s|argument" % ty,
                "argument is 0 for a non-negative real part and pi for a negative one (reference: simba's f64 impl)",
                {1: Poly.const(0), 0: Poly.const(0), -1: Poly.sym("PI")})
    # try_sqrt: Some(sqrt) iff re >= 0
    body = F.impl_item(imp, "try_sqrt")
    if body is None:
        chk.undecide("cf|%s|try_sqrt" % ty, "missing anchor")
    else:
        chk.count("ComplexField branch items")
        by_sign(chk, F, ty, body, "cf|%s|try_sqrt" % ty,
                "try_sqrt is Some(sqrt) exactly when the real part is >= 0 (reference: simba's f64 impl)",
                {1: A.pow(E(Fr(1, 2))), 0: A.pow(E(Fr(1, 2))), -1: None}, optional=True)
    # is_finite
    body = F.impl_item(imp, "is_finite")
    if body is None:
        chk.undecide("cf|%s|is_finite" % ty, "missing anchor")
    else:
        c06.single_pred_forward(chk, F, "cf|%s|is_finite" % ty, body, Spec(ty), "is_finite")
    for name in PANIC_BY_DESIGN:
        if F.impl_item(imp, name) is not None:
            chk.count("panicking-by-design items (excluded)")


def sign_env(sign, opname="a"):
    return {("v", "%s.re" % opname, ()): Fr(sign), ("c", "EPS"): EPS_VALUE}


def sign_arms(chk, F, ty, body, key, rule, base_of_sign, zero_ok=None):
    sp = Spec(ty)
    for sign in (1, -1, 0):
        k2 = "%s|sign=%+d" % (key, sign)
        try:
            paths = run_paths(F, body, lambda: [sp.operand("a")], oracle=sign_oracle(sign_env(sign)))
        except Unsupported as ex:
            chk.undecide(k2, "unsupported: %s" % ex, body_loc(F, body))
            continue
        if len(paths) != 1:
            chk.ob(k2, False, "branches are decided by the sign of the real part", body_loc(F, body),
                   found=[path_descr(c) for c, _, _, _ in paths])
            continue
        val = paths[0][1]
        if sign == 0 and zero_ok:
            ok = any(all(equal(value_part_poly(unref(val), f), sp.spec_of_real(b)[f]) for f, _ in sp.parts()) for b in zero_ok)
            chk.ob(k2, ok, rule + " (either arm at zero)", body_loc(F, body), found=repr(unref(val))[:200], nontrivial=False)
        else:
            compare_parts(chk, k2, rule, body_loc(F, body), sp, val, sp.spec_of_real(base_of_sign(sign)))
    if zero_ok:
        # signed zeros: |+0.0| = +0.0 is the operand itself, |-0.0| = +0.0 is its negation (f64::abs clears the sign bit)
        for tag, negative, want in (("+0.0", False, base_of_sign(1)), ("-0.0", True, base_of_sign(-1))):
            k2 = "%s|sign=%s" % (key, tag)
            try:
                paths = run_paths(F, body, lambda: [sp.operand("a")], oracle=signed_zero_oracle(sign_env(0), negative))
            except Unsupported as ex:
                chk.undecide(k2, "unsupported: %s" % ex, body_loc(F, body))
                continue
            if len(paths) != 1:
                chk.ob(k2, False, "branches are decided by the sign of the real part", body_loc(F, body),
                       found=[path_descr(c) for c, _, _, _ in paths])
                continue
            compare_parts(chk, k2, rule + " — at a zero real part the sign BIT decides (reference: f64::abs)", body_loc(F, body), sp,
                          paths[0][1], sp.spec_of_real(want))


def signed_zero_oracle(env, negative):
    """sign predicates and comparisons for a real part that is +0.0 / -0.0 (IEEE): ordering comparisons see no difference, the
    sign predicates of num_traits / std do (is_positive(+0.0), is_negative(-0.0), is_sign_negative(-0.0))"""
    base = sample_oracle(env)

    def oracle(key, descr, ctx):
        if key[0] == "pred":
            from .common import _poly_from_key_cache as cache
            p = cache.get(key[2])
            v = eval_poly(p, env) if p is not None else None
            if v == 0 and p is not None and any(a[0] == "v" for a in p.atoms_deep()):
                # the value is the signed zero itself or its negation: the sign follows the operand's sign through negation
                neg = negative
                lead = sorted(p.t.items(), key=lambda kv: repr(kv[0]))[0][1] if p.t else 1
                if lead < 0:
                    neg = not neg
                return {"is_zero": True, "is_one": False, "is_positive": not neg, "is_negative": neg,
                        "is_sign_positive": not neg, "is_sign_negative": neg}.get(key[1])
        return base(key, descr, ctx)
    return oracle


def sign_oracle(env):
    """answers sign predicates and comparisons on sampled real parts (an ordering / sign case of the lattice)"""
    base = sample_oracle(env)

    def oracle(key, descr, ctx):
        return base(key, descr, ctx)
    return oracle


def by_sign(chk, F, ty, body, key, rule, want, optional=False):
    sp = Spec(ty)
    for sign in (1, 0, -1):
        k2 = "%s|sign=%+d" % (key, sign)
        try:
            paths = run_paths(F, body, lambda: [sp.operand("a")], oracle=sign_oracle(sign_env(sign)))
        except Unsupported as ex:
            chk.undecide(k2, "unsupported: %s" % ex, body_loc(F, body))
            continue
        if len(paths) != 1:
            chk.ob(k2, False, "the result is decided by comparisons of the real part", body_loc(F, body),
                   found=[path_descr(c) for c, _, _, _ in paths])
            continue
        val = unref(paths[0][1])
        w = want[sign]
        if optional:
            if w is None:
                chk.ob(k2, isinstance(val, Opt) and not val.some, rule, body_loc(F, body), found=repr(val)[:120], required="None")
                continue
            if not (isinstance(val, Opt) and val.some):
                chk.ob(k2, False, rule, body_loc(F, body), found=repr(val)[:120], required="Some(%s ...)" % w.show())
                continue
            val = val.v
        compare_parts(chk, k2, rule, body_loc(F, body), sp, val, sp.spec_of_real(w))


def real_field(chk, F, ty):
    imp = the_impl(chk, F, "RealField", ty)
    if imp is None:
        return
    sp = Spec(ty)
    # atan2 forwards to DualNum::atan2
    body = F.impl_item(imp, "atan2")
    if body is None:
        chk.undecide("rf|%s|atan2" % ty, "missing anchor")
    else:
        chk.count("RealField forwarding items")
        c01.check_atan2(chk, F, ty, trait_body=body, names=("a", "b"), tag="rf")
    copysign_rule(chk, F, ty, imp)
    c06.selections(chk, F, ty)


def copysign_rule(chk, F, ty, imp, tag="rf"):
    sp = Spec(ty)
    # copysign(self, sign): |self| with the sign of sign.re
    body = F.impl_item(imp, "copysign")
    if body is None:
        chk.undecide(tag + "|%s|copysign" % ty, "missing anchor")
    else:
        chk.count("RealField branch items")
        for s_self in (1, -1):
            for s_sign in (1, -1):
                env = {("v", "a.re", ()): Fr(s_self), ("v", "b.re", ()): Fr(s_sign), ("c", "EPS"): EPS_VALUE}
                k2 = tag + "|%s|copysign|self=%+d,sign=%+d" % (ty, s_self, s_sign)
                try:
                    paths = run_paths(F, body, lambda: [sp.operand("a"), sp.operand("b")], oracle=sample_oracle(env))
                except Unsupported as ex:
                    chk.undecide(k2, "unsupported: %s" % ex, body_loc(F, body))
                    continue
                if len(paths) != 1:
                    chk.ob(k2, False, "copysign is decided by the signs of the real parts", body_loc(F, body),
                           found=[path_descr(c) for c, _, _, _ in paths])
                    continue
                base = A if s_self * s_sign > 0 else -A
                compare_parts(chk, k2, "copysign returns +-self: the magnitude of self with the sign of sign.re", body_loc(F, body), sp,
                              paths[0][1], sp.spec_of_real(base))
                # reference semantics (f64::copysign): the SIGN BIT of sign.re decides, so that -0.0 counts as negative; an ordering
                # comparison with zero is not the same predicate
                from .common import _poly_from_key_cache as cache
                b_atoms = set(B.atoms_deep())

                def about_sign(k):
                    return any(isinstance(x, (tuple, str)) and cache.get(x) is not None and (b_atoms & set(cache.get(x).atoms_deep())) for x in k[2:])
                # (num_traits' is_positive / is_negative of a float are sign-bit tests as well)
                bad_dec = [d for (k, d, b_, f_) in paths[0][0].trace
                           if about_sign(k) and not (k[0] == "pred" and k[1] in ("is_sign_positive", "is_sign_negative", "is_positive", "is_negative"))]
                chk.ob(k2 + "|sign-bit", not bad_dec, "the sign is taken from the sign bit of sign.re (is_sign_positive / is_sign_negative)",
                       body_loc(F, body), found=bad_dec or "sign-bit predicate", required="is_sign_positive(sign.re)", nontrivial=False)


# ------------------------------------------------------------------------------------------ SIMD lane view
def simd(chk, F, ty):
    imp = the_impl(chk, F, "SimdValue", ty)
    if imp is None:
        return
    I = Poly.var("param.i")
    sp = Spec(ty)
    pats = presence_patterns(ty)
    allp = pats[-1]

    def wrap(name, *ps):
        return fn_n(DOMK, name, *ps)

    def lanes_of(v, f):
        return value_part_poly(unref(v), f)

    hooks = [elementwise_hook]
    for name in ("splat", "extract", "extract_unchecked", "replace", "replace_unchecked", "select"):
        body = F.impl_item(imp, name)
        key = "simd|%s|%s" % (ty, name)
        if body is None:
            chk.undecide(key, "missing anchor")
            continue
        chk.count("SimdValue items")
        presences = pats if name in ("splat", "extract", "replace", "replace_unchecked") else [allp]
        for pa in presences:
            pbs = presences if name.startswith("replace") else [pa]
            for pb in pbs:
                k2 = key + ("" if pa is None else "|presence=%s%s" % (pres_tag(pa), pres_tag(pb) if name.startswith("replace") else ""))
                try:
                    it = Interp(F, DOMK, hooks=hooks, extern=NALGEBRA)
                    it.elementwise_loops = True
                    a = sp.operand("a", pa)
                    if name == "splat":
                        r = it.call_body(body, [a])
                        want = {f: wrap("splat", value_part_poly(a, f)) if present(pa, f) else Poly() for f, _ in sp.parts()}
                        cmp_fields(chk, k2, "splat replicates every part", F, body, sp, r, want)
                    elif name in ("extract", "extract_unchecked"):
                        def mk():
                            return [sp.operand("a", pa), Sc(I)]

                        def run_one(ctx):
                            it2 = Interp(F, DOMK, ctx=ctx, hooks=hooks, extern=NALGEBRA)
                            it2.elementwise_loops = True
                            return it2.call_body(body, mk())
                        for ctx, r in explore(run_one):
                            want = {f: wrap("%s@%s" % (name, I.show()), value_part_poly(a, f)) if present(pa, f) else Poly()
                                    for f, _ in sp.parts()}
                            # the container drops a part whose extracted lanes are all zero: on that path the part IS zero
                            for (k, d, b, forced) in ctx.trace:
                                if k[0] == "pred" and k[1] == "is_zero" and b:
                                    for f in want:
                                        if want[f].key() == k[2]:
                                            want[f] = Poly()
                            kk = k2 if not ctx.trace else k2 + "|path=" + path_descr(ctx)
                            cmp_fields(chk, kk, "%s takes lane i of every part" % name, F, body, sp, r, want)
                    elif name in ("replace", "replace_unchecked"):
                        b = sp.operand("b", pb)
                        cell = [a]
                        it.call_body(body, [Ref(cell, 0), Sc(I), b])
                        want = {}
                        for f, _ in sp.parts():
                            pa_f, pb_f = present(pa, f), present(pb, f)
                            if not pa_f and not pb_f:
                                want[f] = Poly()
                            else:
                                av = Poly.var("a.%s" % f, idx_of(ty, f)) if pa_f else Poly()
                                bv = Poly.var("b.%s" % f, idx_of(ty, f)) if pb_f else Poly()
                                want[f] = wrap("%s@%s" % (name, I.show()), av, bv)
                        cmp_fields(chk, k2, "%s writes lane i of every part (an absent part counts as zeros)" % name, F, body, sp, cell[0], want)
                    elif name == "select":
                        b = sp.operand("b", pa)
                        cnd = Sc(Poly.var("param.cond"))
                        paths = run_paths(F, body, lambda: [sp.operand("a", pa), Sc(Poly.var("param.cond")), sp.operand("b", pa)], hooks=hooks)
                        for ctx, val, _, _ in paths:
                            want = {f: wrap("select@param.cond", Poly.var("a.%s" % f, idx_of(ty, f)), Poly.var("b.%s" % f, idx_of(ty, f)))
                                    for f, _ in sp.parts()}
                            # all()/none() shortcuts of the container return an operand wholesale
                            descr = path_descr(ctx)
                            if "all" in descr or "none" in descr:
                                continue
                            cmp_fields(chk, k2, "select chooses lane-wise in every part", F, body, sp, val, want)
                except Unsupported as ex:
                    chk.undecide(k2, "unsupported: %s" % ex, body_loc(F, body))
    body = F.impl_item(imp, "LANES")
    if body is None:
        chk.undecide("simd|%s|LANES" % ty, "missing anchor")
    else:
        r = unref(Interp(F, DOMK).call_body(body, []))
        ok = isinstance(r, Sc) and "LANES(" in r.v.show() and len(r.v.t) == 1
        chk.ob("simd|%s|LANES" % ty, ok, "LANES is T::LANES", body_loc(F, body), found=repr(r)[:120], nontrivial=False)


def present(p, f):
    if p is None or f == "re":
        return True
    return p.get(f, True)


def idx_of(ty, f):
    for fld, pd in GRADINGS[ty]["parts"]:
        if fld == f:
            return tuple(d[1] for d in pd if d[1] is not None)
    return ()


def cmp_fields(chk, key, rule, F, body, sp, result, want):
    result = unref(result)
    if not isinstance(result, Rec) or result.adt != sp.ty:
        chk.ob(key, False, rule, body_loc(F, body), found=repr(result)[:200])
        return
    for f, _ in sp.parts():
        got = value_part_poly(result, f)
        ok = equal(got, want[f])
        chk.ob("%s|part=%s" % (key, f), ok, rule, body_loc(F, body), found=got.show(), required=want[f].show(), nontrivial=bool(want[f].t))


def elementwise_hook(it, body, args):
    """Derivative::map_borrowed / try_map_borrowed contain the two unsafe element-wise loop nests whose template is verified
    structurally by C13.3; here their loops are interpreted as one evaluation for a symbolic element"""
    return NotImplemented


def simd_container(chk, F):
    """SimdValue for Derivative: respects alpha in every presence case"""
    from .container import deriv, alpha, var_of, SHAPE
    imps = F.impls_of("SimdValue", "Derivative")
    if len(imps) != 1:
        chk.undecide("simd|Derivative", "missing anchor")
        return
    imp = imps[0]
    I = Poly.var("param.i")
    # select(cond, other) with the single-lane mask: self when the mask is set, other when it is not
    body = F.impl_item(imp, "select")
    if body is None:
        chk.undecide("simd|Derivative|select", "missing anchor")
    else:
        chk.count("SimdValue items (container)")
        for cond in (True, False):
            for ps in (True, False):
                for pr in (True, False):
                    k2 = "simd|Derivative|select|mask=%s|presence=%s%s" % (cond, "S" if ps else "N", "S" if pr else "N")
                    try:
                        it = Interp(F, DOMK, extern=NALGEBRA)
                        it.elementwise_loops = True
                        got = alpha(it.call_body(body, [deriv("s", ps), BoolV(cond), deriv("r", pr)]))
                        want = (var_of("s") if ps else Poly()) if cond else (var_of("r") if pr else Poly())
                        chk.ob(k2, equal(got, want), "select returns self where the mask is set and the other operand where it is not "
                               "(absent == zero)", body_loc(F, body), found=got.show(), required=want.show(), nontrivial=bool(want.t))
                    except Unsupported as ex:
                        chk.undecide(k2, "unsupported: %s" % ex, body_loc(F, body))
    for name in ("splat", "extract", "replace", "replace_unchecked"):
        body = F.impl_item(imp, name)
        key = "simd|Derivative|%s" % name
        if body is None:
            chk.undecide(key, "missing anchor")
            continue
        chk.count("SimdValue items (container)")
        for ps in (True, False):
            for pr in ((True, False) if name.startswith("replace") else (None,)):
                k2 = "%s|presence=%s%s" % (key, "S" if ps else "N", "" if pr is None else ("S" if pr else "N"))
                try:
                    it = Interp(F, DOMK, extern=NALGEBRA)
                    it.elementwise_loops = True
                    s = deriv("s", ps)
                    sv = var_of("s") if ps else Poly()
                    if name == "splat":
                        got = alpha(it.call_body(body, [s]))
                        want = fn_n(DOMK, "splat", sv) if ps else Poly()
                    elif name == "extract":
                        got = alpha(it.call_body(body, [s, Sc(I)]))
                        want = fn_n(DOMK, "extract@param.i", sv) if ps else Poly()
                    else:
                        r = deriv("r", pr)
                        rv = var_of("r") if pr else Poly()
                        cell = [s]
                        it.call_body(body, [Ref(cell, 0), Sc(I), r])
                        got = alpha(cell[0])
                        want = Poly() if (not ps and not pr) else fn_n(DOMK, "%s@param.i" % name, sv, rv)
                    chk.ob(k2, equal(got, want), "container lane operation acts element-wise and treats an absent part as zeros",
                           body_loc(F, body), found=got.show(), required=want.show(), nontrivial=bool(want.t))
                except Unsupported as ex:
                    chk.undecide(k2, "unsupported: %s" % ex, body_loc(F, body))
