"""C07 — absent derivative parts behave exactly like all-zero derivative parts."""
from .. import facts
from ..report import Check
from .. import walk
from . import algebra, container, c08
from .algebra import X, N, BASE, real_fn, UNARY
from .common import *

VEC = [t for t in TYPES if GRADINGS[t]["vec"]]

# functions outside the container module that may inspect presence (`.0` of a Derivative), with the reason
ALLOWED_OBSERVERS = {
    # (none on the pinned tree in the default configuration: Display goes through Derivative::fmt)
}


def run(tier):
    chk = Check("C07", tier, "proof",
                "L1: every operator impl and inherent method of the optional-matrix container satisfies "
                "alpha(result) == op(alpha(operands)) in every presence case (alpha(None)=0, alpha(Some(m))=m); "
                "L2: every arithmetic, chain-rule, elementary-function, power, scalar and in-place operation of the three "
                "vector types is discharged under ALL 2^k presence patterns of the operands against the same spec; "
                "who-may-access: nothing outside the container inspects presence",
                assumptions=["identities over the reals", "sequences of in-place operations: by induction, each step preserves alpha"],
                trusted_base=["rustc type checker and name resolution", "ndv-export", "ndvlib/poly.py", "gradings (A.1)"])
    F = facts.load("default")
    container.check_L1(chk, F)
    algebra.check_arith(chk, F, types=VEC, tag="L2-arith")
    algebra.check_chain_rules(chk, F, types=VEC, tag="L2-chain")
    for ty in VEC:
        for name in UNARY + ["tan", "tanh"]:
            algebra.end_to_end(chk, F, ty, name, "L2-fn", lambda ctx, name=name: real_fn(name, X))
        for case in algebra.exponent_cases("powi"):
            algebra.end_to_end(chk, F, ty, "powi", "L2-fn", lambda ctx, case=case: pow_real(case), exponent_case=case)
        for case in algebra.exponent_cases("powf"):
            algebra.end_to_end(chk, F, ty, "powf", "L2-fn", lambda ctx, case=case: pow_real(case), exponent_case=case)
        c08.check_type(chk, F, ty, thorough=True)
    # conversions: checked / unchecked narrowing and widening treat an absent part like a zero part
    from . import c13
    c13.container_conversions(chk, F, True)
    for ty in ("DualVec", "Dual2Vec"):
        c13.type_conversions(chk, F, ty, True)
    # in-place lane updates (SimdValue::replace / extract / select) of the vector types and of the container (rule set of C11)
    from . import c11
    for ty in ("DualVec", "Dual2Vec"):
        c11.simd(chk, F, ty)
    c11.simd_container(chk, F)
    who_may_access(chk, F)
    chk.floor("Derivative operator impls", chk.analysed.get("Derivative operator impls", 0), 17)
    chk.floor("Derivative inherent methods", chk.analysed.get("Derivative inherent methods", 0), 6)
    chk.floor("operator/conversion impls", chk.analysed.get("operator/conversion impls", 0), 3 * 40)
    return chk.finish()


def pow_real(case):
    cname, nval = case
    if cname == "n=0":
        return Poly.const(1)
    if cname == "n=1":
        return X
    if cname in ("n=2", "n~2"):
        return X * X
    return X.pow(DOM.exponent(N))


def who_may_access(chk, F, tag="access"):
    """every projection of Derivative.0 (or destructuring of a Derivative) must sit inside an impl of Derivative"""
    n_sites = 0
    n_in = 0
    for b in F.bodies.values():
        imp = b.get("_impl")
        inside = bool(imp) and F.adt_name(imp["self"]) == "Derivative"
        sites = []
        for n in walk.walk_body(b):
            if n.get("k") == "field" and n["name"] == "0" and F.adt_name(n["a"].get("at", n["a"]["t"])) == "Derivative":
                sites.append(n)
            elif n.get("k") == "field" and n["name"] == "0" and F.adt_name(n["a"]["t"]) == "Derivative":
                sites.append(n)
        for p in walk.pats(b["body"]):
            if p.get("k") == "tuplestruct" and F.adt_name(p["t"]) == "Derivative":
                sites.append({"l": b["l"], "pattern": True})
        if not sites:
            continue
        n_sites += len(sites)
        if inside:
            n_in += len(sites)
            continue
        if b["path"] in ALLOWED_OBSERVERS:
            continue
        if facts.binding_layer(b["path"]) and (b.get("name") or "").startswith("get_"):
            # Python getters return Option<...>: read-only observers that expose presence by design
            chk.count("presence observers in the binding layer (getters)", len(sites))
            continue
        for s in sites:
            chk.ob("%s|%s" % (tag, b["path"]), False,
                   "only the container module may inspect the presence of a derivative part", F.loc(s["l"]),
                   found="projection of Derivative.0 in %s" % b["path"],
                   required="access through the container's operations")
    chk.count("presence-inspecting sites (all inside impl Derivative)", n_in)
    chk.ob("%s|summary" % tag, True, "all %d projections of Derivative.0 are inside impls of Derivative" % n_in, "",
           found=n_sites, nontrivial=False)
    chk.floor("presence-inspecting sites", n_in, 40)
