"""L1: the optional-matrix container (src/derivative.rs) against absent == zero."""
from .common import *


def check_L1(chk, F, tag="container"):
    pass
