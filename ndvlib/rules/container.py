"""L1: the optional-matrix container (src/derivative.rs): every operation respects  absent == zero."""
from .common import *

SHAPE = ("R", "C")


def deriv(name, present, shape=SHAPE):
    idx = tuple(s for s, d in zip(("$r", "$c"), shape) if d != "1")
    m = Mat(Poly.var(name, idx), shape)
    return Rec("Derivative", {"0": Opt(True, m) if present else Opt(False), "1": PHANTOM})


def alpha(v):
    """abstraction: None -> 0, Some(m) -> m"""
    v = unref(v)
    if isinstance(v, Rec) and v.adt == "Derivative":
        o = unref(v.f["0"])
        return o.v.p if o.some else Poly()
    if isinstance(v, Mat):
        return v.p
    raise Unsupported("alpha of %r" % (v,))


def var_of(name, shape=SHAPE):
    idx = tuple(s for s, d in zip(("$r", "$c"), shape) if d != "1")
    return Poly.var(name, idx)


BIN = {"Add": lambda s, r: s + r, "Sub": lambda s, r: s - r}
ASSIGN = {"AddAssign": lambda s, r: s + r, "SubAssign": lambda s, r: s - r}


def check_L1(chk, F, tag="container"):
    T = Poly.var("t")
    n_impls = 0
    for imp in F.impls.values():
        if F.adt_name(imp["self"]) != "Derivative" or not imp.get("trait"):
            continue
        tr = imp["trait"].split("::")[-1]
        if tr not in ("Mul", "Div", "Add", "Sub", "Neg", "AddAssign", "SubAssign", "MulAssign", "DivAssign"):
            continue
        meth = {"Mul": "mul", "Div": "div", "Add": "add", "Sub": "sub", "Neg": "neg", "AddAssign": "add_assign",
                "SubAssign": "sub_assign", "MulAssign": "mul_assign", "DivAssign": "div_assign"}[tr]
        body = F.impl_item(imp, meth)
        if body is None:
            continue
        n_impls += 1
        sig = body["sig_in"]
        self_ref = F.ty(sig[0])["k"] == "ref"
        rhs_kind = None
        if len(sig) > 1:
            rhs_kind = "deriv" if F.adt_name(sig[1]) == "Derivative" else "scalar"
        rhs_ref = len(sig) > 1 and F.ty(sig[1])["k"] == "ref"
        form = "%s%s<%s%s>" % ("&" if self_ref else "", tr, "&" if rhs_ref else "", {"deriv": "D", "scalar": "T", None: ""}[rhs_kind])
        loc = body_loc(F, body)
        if tr == "Mul" and rhs_kind == "deriv":
            shapes = (("M", "1"), ("1", "N"))
        else:
            shapes = (SHAPE, SHAPE)
        for ps in (True, False):
            for pr in ((True, False) if rhs_kind == "deriv" else (None,)):
                key = "%s|%s|presence=%s%s" % (tag, form, "S" if ps else "N", "" if pr is None else ("S" if pr else "N"))
                s_val = deriv("s", ps, shapes[0])
                s_al = var_of("s", shapes[0]) if ps else Poly()
                args = [s_val]
                if rhs_kind == "deriv":
                    args.append(deriv("r", pr, shapes[1]))
                    r_al = var_of("r", shapes[1]) if pr else Poly()
                elif rhs_kind == "scalar":
                    args.append(Sc(T))
                if tr in ASSIGN or tr in ("MulAssign", "DivAssign"):
                    cell = [s_val]
                    args[0] = Ref(cell, 0)
                try:
                    it = Interp(F, DOMK)
                    res = it.call_body(body, args)
                    if tr in ASSIGN:
                        got, want = alpha(cell[0]), ASSIGN[tr](s_al, r_al)
                    elif tr == "MulAssign":
                        got, want = alpha(cell[0]), s_al * T
                    elif tr == "DivAssign":
                        got, want = alpha(cell[0]), s_al * T.recip()
                    elif tr in BIN:
                        got, want = alpha(res), BIN[tr](s_al, r_al)
                    elif tr == "Neg":
                        got, want = alpha(res), -s_al
                    elif tr == "Mul":
                        got, want = alpha(res), (s_al * r_al if rhs_kind == "deriv" else s_al * T)
                    elif tr == "Div":
                        got, want = alpha(res), s_al * T.recip()
                    ok = equal(got, want)
                    chk.ob(key, ok, "container operation respects absent == zero: alpha(result) == op(alpha(operands))",
                           loc, found=got.show(), required=want.show(), nontrivial=bool(want.t))
                except Unsupported as ex:
                    chk.undecide(key, "unsupported: %s" % ex, loc)
    chk.count("Derivative operator impls", n_impls)
    # inherent methods
    # the 1x1 specialisation: unwrap() of an absent part is zero, of a present part its single element
    bs = F.find_method("Derivative", "unwrap", None)
    if len(bs) == 1:
        body = bs[0]
        loc = body_loc(F, body)
        chk.count("Derivative inherent methods")
        for ps in (True, False):
            key = "%s|unwrap|presence=%s" % (tag, "S" if ps else "N")
            try:
                it = Interp(F, DOMK)
                arg = Rec("Derivative", {"0": Opt(True, Mat(Poly.var("s"), ("1", "1"))) if ps else Opt(False), "1": PHANTOM})
                res = unref(it.call_body(body, [arg]))
                want = Poly.var("s") if ps else Poly()
                ok = isinstance(res, Sc) and equal(res.v, want)
                chk.ob(key, ok, "unwrap() of a 1x1 part: its element when present, zero when absent", loc,
                       found=repr(res)[:120], required=want.show() or "0")
            except Unsupported as ex:
                chk.undecide(key, "unsupported: %s" % ex, loc)
    for name in ("tr_mul", "unwrap_generic", "some", "none", "new", "map"):
        bs = F.find_method("Derivative", name, None)
        if len(bs) != 1:
            chk.undecide("%s|%s" % (tag, name), "missing anchor: Derivative::%s" % name)
            continue
        body = bs[0]
        loc = body_loc(F, body)
        chk.count("Derivative inherent methods")
        try:
            if name == "tr_mul":
                sh = ("1", "D")
                for ps in (True, False):
                    for pr in (True, False):
                        it = Interp(F, DOMK)
                        res = it.call_body(body, [deriv("s", ps, sh), deriv("r", pr, sh)])
                        want = (Poly.var("s", ("$r",)) * Poly.var("r", ("$c",))) if (ps and pr) else Poly()
                        got = alpha(res)
                        chk.ob("%s|tr_mul|presence=%s%s" % (tag, "S" if ps else "N", "S" if pr else "N"), equal(got, want),
                               "tr_mul is the transposed product and vanishes when either side is absent", loc,
                               found=got.show(), required=want.show(), nontrivial=bool(want.t))
            elif name == "unwrap_generic":
                for ps in (True, False):
                    it = Interp(F, DOMK, extern=dict(NALGEBRA, **ZEROS))   # any known constructor is interpreted (and compared), not left out
                    res = unref(it.call_body(body, [deriv("s", ps), DimV("R"), DimV("C")]))
                    want = var_of("s") if ps else Poly()
                    ok = isinstance(res, Mat) and equal(res.p, want) and res.shape == SHAPE
                    chk.ob("%s|unwrap_generic|presence=%s" % (tag, "S" if ps else "N"), ok,
                           "unwrapping an absent part yields zeros of the requested shape", loc,
                           found=repr(res)[:200], required=want.show(), nontrivial=True)
            elif name == "some":
                it = Interp(F, DOMK)
                res = it.call_body(body, [Mat(var_of("s"), SHAPE)])
                chk.ob("%s|some" % tag, equal(alpha(res), var_of("s")) and unref(unref(res).f["0"]).some,
                       "some(m) is present with value m", loc, nontrivial=False)
            elif name == "none":
                it = Interp(F, DOMK)
                res = it.call_body(body, [])
                chk.ob("%s|none" % tag, not unref(unref(res).f["0"]).some, "none() is absent", loc, nontrivial=False)
            elif name == "map":
                for ps in (True, False):
                    it = Interp(F, DOMK)
                    g = FnV({"path": "g", "name": "neg"})
                    res = it.call_body(body, [deriv("s", ps), Clo(NEG_CLOSURE, {})])
                    want = -var_of("s") if ps else Poly()
                    chk.ob("%s|map|presence=%s" % (tag, "S" if ps else "N"), equal(alpha(res), want),
                           "map applies the function element-wise and keeps absence", loc, nontrivial=ps)
        except Unsupported as ex:
            chk.undecide("%s|%s" % (tag, name), "unsupported: %s" % ex, loc)


from ..interp import DimV, Ref, FnV, Clo  # noqa: E402


def _zeros(it, args, e):
    a = [unref(x) for x in args]
    if len(a) == 2 and all(isinstance(x, DimV) for x in a):
        return Mat(Poly(), (a[0].name, a[1].name))
    raise Unsupported("zeros_generic args")


ZEROS = {
    "nalgebra::base::construction::<impl nalgebra::Matrix<T, R, C, <nalgebra::DefaultAllocator as nalgebra::allocator::Allocator<R, C>>::Buffer<T>>>::zeros_generic": _zeros,
}

# a synthetic closure |x| -x used to probe Derivative::map
NEG_CLOSURE = {
    "params": [{"k": "bind", "name": "x", "id": "synthetic.x", "byref": False, "mut": False, "t": 0}],
    "body": {"k": "un", "op": "-", "t": 0, "l": 0,
             "a": {"k": "path", "t": 0, "l": 0, "res": {"r": "local", "name": "x", "id": "synthetic.x"}}},
}
