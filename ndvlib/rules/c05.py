"""C05 — derivative driver functions seed, extract and orient results correctly."""
from .. import facts
from ..report import Check
from ..interp import HostFn, IterV, DimV, Ref, Res, IndexPlace, deep, StrV, UNIT
from .common import *

ONE = Poly.const(1)


def delta(a, b):
    return Poly.var("δ", (a, b))


class VecV:
    """element-uniform vector: `elem` is the k-th element, its atoms carry the index symbol `idx`"""
    def __init__(self, elem, dim, idx):
        self.elem, self.dim, self.idx = elem, dim, idx

    def __repr__(self):
        return "Vec[%s:%s](%r)" % (self.idx, self.dim, self.elem)


class IterMutV:
    def __init__(self, vec):
        self.vec = vec


class EnumV:
    def __init__(self, it):
        self.it = it


class VecIter:
    def __init__(self, vec, filtered=False, empty=False):
        self.vec = vec
        self.filtered = filtered   # some elements may have been dropped: the position in the iterator is not the element's index
        self.empty = empty


class ElemSel:
    """x[i] of an element-uniform vector: writes are guarded by delta(idx, i)"""
    def __init__(self, vec, i):
        self.vec, self.i = vec, i


class ElemField:
    def __init__(self, sel, field):
        self.sel, self.field = sel, field

    def place_get(self, k):
        return self.sel.vec.elem.f[self.field]

    def place_set(self, k, v):
        vec = self.sel.vec
        old = unref(vec.elem.f[self.field])
        v = unref(v)
        if not (isinstance(old, Sc) and isinstance(v, Sc)):
            raise Unsupported("indexed assignment of a non-scalar part")
        d = delta(vec.idx, self.sel.i)
        vec.elem.f[self.field] = Sc(d * v.v + (ONE - d) * old.v)


class DriverInterp(Interp):
    def leaf_call(self, name, path, ipath, c, args, e):
        a0 = unref(args[0]) if args else None
        if isinstance(a0, VecV):
            if name == "map" and len(args) == 2:
                return VecV(self.call_closure(unref(args[1]), [deep(a0.elem)], e), a0.dim, a0.idx)
            if name == "shape_generic":
                return Tup([DimV(a0.dim), DimV("1")])
            if name == "map_with_location" and len(args) == 2:
                # column vector: closure(row, col, element) with row = the element's own index, col = 0
                r = self.call_closure(unref(args[1]), [Sc(Poly.var(a0.idx)), Sc(Poly.const(0)), deep(a0.elem)], e)
                return VecV(r, a0.dim, a0.idx)
            if name == "iter_mut":
                return IterMutV(a0)
            if name == "iter":
                return VecIter(a0)
            if name in ("as_slice", "clone", "clone_owned", "as_ref", "deref"):
                return a0
            if name == "len" or name == "nrows":
                return Sc(Poly.sym("len_" + a0.dim))
        if isinstance(a0, IterMutV) and name == "enumerate":
            return EnumV(a0)
        if isinstance(a0, IterMutV) and name == "zip" and len(args) == 2:
            r = unref(args[1])
            if isinstance(r, Rec) and r.adt.endswith("RangeFrom") and isinstance(unref(r.f.get("start")), Sc) and unref(r.f["start"]).v.const_value() == 0:
                ev_ = EnumV(a0)
                ev_.swapped = True       # items are (element, index)
                return ev_
            raise Unsupported("zip of a mutable iterator with %r" % (r,))
        if isinstance(a0, (EnumV, IterMutV)) and name == "for_each" and len(args) == 2:
            return self.loop_over(a0, unref(args[1]), None, e)
        if isinstance(a0, VecIter) and name in ("filter_map", "filter") and len(args) == 2:
            r = unref(self.call_closure(unref(args[1]), [Ref([a0.vec.elem], 0) if name == "filter" else a0.vec.elem], e))
            if name == "filter":
                raise Unsupported("filter on an element-uniform vector")
            if not isinstance(r, Opt):
                raise Unsupported("filter_map closure result")
            if not r.some:
                return VecIter(a0.vec, filtered=True, empty=True)
            return VecIter(VecV(r.v, a0.vec.dim, a0.vec.idx), filtered=True)
        if isinstance(a0, VecIter) and name == "enumerate":
            return EnumV(a0)
        if isinstance(a0, Mat) and name == "set_row" and len(args) == 3:
            i, row = unref(args[1]), unref(args[2])
            if not (isinstance(i, Sc) and isinstance(row, Mat) and row.shape[0] == "1" and row.shape[1] == a0.shape[1]):
                raise Unsupported("set_row arguments")
            d = delta("$r", idx_name(i))
            a0.p = d * row.p + (ONE - d) * a0.p
            return UNIT
        if isinstance(a0, EnumV) and isinstance(a0.it, VecIter) and name == "map" and len(args) == 2:
            vec = a0.it.vec
            r = self.call_closure(unref(args[1]), [Tup([Sc(Poly.var(vec.idx)), deep(vec.elem)])], e)
            return VecIter(VecV(r, vec.dim, vec.idx))
        if isinstance(a0, VecIter):
            if name == "map":
                return VecIter(VecV(self.call_closure(unref(args[1]), [deep(a0.vec.elem)], e), a0.vec.dim, a0.vec.idx))
            if name == "collect":
                return a0.vec
            if name == "cloned" or name == "copied":
                return a0
        if name == "from_rows" and isinstance(a0, VecV) and isinstance(unref(a0.elem), Mat):
            m = unref(a0.elem)
            if m.shape[0] != "1":
                raise Unsupported("from_rows of non-row elements")
            return Mat(m.p.rename_idx({a0.idx: "$r"}), (a0.dim, m.shape[1]))
        if name == "into_iter" and isinstance(a0, (EnumV, IterMutV, VecIter)):
            return a0
        return Interp.leaf_call(self, name, path, ipath, c, args, e)

    def compare(self, op, a, b):
        # equality of two index symbols (the element's own index, an index parameter): one canonical decision per unordered pair
        if op in ("==", "!=") and isinstance(a, Sc) and isinstance(b, Sc) and is_index(a.v) and is_index(b.v):
            if a.v.key() > b.v.key():
                a, b = b, a
        elif isinstance(a, Sc) and isinstance(b, Sc) and (is_index(a.v) or is_index(b.v)) and op not in ("==", "!="):
            # `i < x.len()` (an explicit bounds assertion / guard): indices are in range by precondition -- the indexing
            # `x[i]` of the other spellings panics exactly when this is false -- so the comparison is decided, not explored
            if is_index(a.v) and is_len(b.v) and op in ("<", ">="):
                return BoolV(op == "<")
            if is_len(a.v) and is_index(b.v) and op in (">", "<="):
                return BoolV(op == ">")
            raise Unsupported("ordering comparison on an element index")
        return Interp.compare(self, op, a, b)

    def ev_for(self, e, env):
        # for (i, xi) in x.iter_mut().enumerate() { body }  on an element-uniform vector
        try:
            call = e["scrut"]
            itv = unref(self.ev(call["args"][0], env))
            arm = e["arms"][0]
            loop = arm["body"]
            inner = loop["body"]["stmts"][0]["e"] if loop["body"]["stmts"] else loop["body"]["tail"]
            some_arm = [a for a in inner["arms"] if a["pat"].get("fields") or a["pat"].get("pats")][0]
            pat = some_arm["pat"]["fields"][0]["pat"] if some_arm["pat"]["k"] == "struct" else some_arm["pat"]["pats"][0]
            body = some_arm["body"]
        except (KeyError, IndexError, TypeError):
            self.unsupported("for-loop desugaring shape", e)
        return self.loop_over(itv, None, (pat, body, env), e)

    def loop_over(self, itv, closure, forparts, e):
        """one element-uniform iteration over an (enumerated) mutable vector iterator: the loop body (for loop) or the closure
        (for_each) is evaluated for the symbolic element; loop-carried state is detected and tested for uniformity"""
        if isinstance(itv, EnumV) and isinstance(itv.it, IterMutV):
            vec = itv.it.vec
            cell = [vec.elem]
            item = Tup([Sc(Poly.var(vec.idx)), Ref(cell, 0)])
            if getattr(itv, "swapped", False):
                item = Tup([item.vs[1], item.vs[0]])
            self.loop_sites.append(("enumerate-iter_mut", vec.idx))
        elif isinstance(itv, IterMutV):
            vec = itv.vec
            cell = [vec.elem]
            item = Ref(cell, 0)
        elif isinstance(itv, VecIter) or (isinstance(itv, EnumV) and isinstance(itv.it, VecIter)):
            return self.loop_immutable(itv, closure, forparts, e)
        else:
            self.unsupported("for loop over %r" % (itv,), e)
        original = deep(vec.elem)
        if forparts is not None:
            pat, body, env = forparts
        else:
            env = dict(closure.env) if hasattr(closure, "env") else {}
            pat, body = None, None
        before = {k: freeze(c[0]) for k, c in env.items()}

        def run_once(it_item):
            if forparts is not None:
                if not self.bind(pat, it_item, env):
                    self.unsupported("for pattern", e)
                self.ev(body, env)
            else:
                self.call_closure(closure, [it_item], e)
        run_once(item)
        carried = [k for k, c in env.items() if k in before and unref(c[0]) is not vec and freeze(c[0]) != before[k]]
        if carried:
            # state is carried between iterations: the body is element-uniform only if a second iteration on the carried
            # state produces the same element (modulo the index symbol)
            idx2 = vec.idx + "'"
            cell2 = [rename_val(deep(original), {vec.idx: idx2})]
            if isinstance(itv, EnumV):
                item2 = Tup([Sc(Poly.var(idx2)), Ref(cell2, 0)])
                if getattr(itv, "swapped", False):
                    item2 = Tup([item2.vs[1], item2.vs[0]])
            else:
                item2 = Ref(cell2, 0)
            run_once(item2)
            want = freeze(cell[0], {vec.idx: idx2})
            got = freeze(cell2[0])
            if want != got:
                raise NonUniformLoop("the loop carries state between iterations and is not element-uniform: iteration %s produces %r "
                                     "where %r is required" % (idx2, unref(cell2[0]), rename_val(cell[0], {vec.idx: idx2})), self.loc(e))
        vec.elem = cell[0]
        return UNIT

    def loop_immutable(self, itv, closure, forparts, e):
        """for (i, el) in v.iter()[.filter_map(..)].enumerate() { M.set_row(i, ..) }: one evaluation for the symbolic element; rows
        written at the element's own index over the whole vector generalise to  M[$r] = row($r); a position that is not the
        element's index (enumerate after a filter) stays an opaque symbol"""
        vit = itv.it if isinstance(itv, EnumV) else itv
        vec = vit.vec
        if vit.empty:
            return UNIT
        pos = Sc(Poly.var(vec.idx)) if not vit.filtered else Sc(apply_fn("position_after_filter", Poly.var(vec.idx)))
        item = Tup([pos, vec.elem]) if isinstance(itv, EnumV) else vec.elem
        if forparts is not None:
            pat, body, env = forparts
            mats = [unref(c[0]) for c in env.values() if isinstance(unref(c[0]), Mat)]
            if not self.bind(pat, item, env):
                self.unsupported("for pattern", e)
            self.ev(body, env)
        else:
            mats = [unref(c[0]) for c in getattr(closure, "env", {}).values() if isinstance(unref(c[0]), Mat)]
            self.call_closure(closure, [item], e)
        for m in mats:
            if m.p is None:
                continue

            def f(a, vec=vec):
                if a[0] == "v" and a[1] == "δ" and a[2] == ("$r", vec.idx):
                    return ONE
                return None
            q = m.p.subst(f)
            if q.key() != m.p.key():
                m.p = q.rename_idx({vec.idx: "$r"})
        return UNIT

    def ev_index(self, e, env):
        base = unref(self.ev(e["a"], env))
        if isinstance(base, VecV):
            i = unref(self.ev(e["b"], env))
            return ElemSel(base, idx_name(i))
        return Interp.ev_index(self, e, env)

    def place(self, e, env):
        if e["k"] == "field":
            base = unref(self.ev(e["a"], env))
            if isinstance(base, ElemSel):
                return (ElemField(base, e["name"]), 0)
        if e["k"] == "index":
            base = unref(self.ev(e["a"], env))
            i = unref(self.ev(e["b"], env))
            if isinstance(base, Mat):
                return (MatIndex(base, idx_name(i)), 0)
        return Interp.place(self, e, env)


def is_index(p):
    if len(p.t) != 1:
        return False
    (m, c), = p.t.items()
    return c == 1 and len(m) == 1 and m[0][1] == (1, 0) and m[0][0][0] == "v" and not m[0][0][2] and \
        (m[0][0][1].startswith("$") or m[0][0][1] in ("i", "j", "k"))


def is_len(p):
    """the symbol `len_<dim>` of an element-uniform vector"""
    if len(p.t) != 1:
        return False
    (m, c), = p.t.items()
    return c == 1 and len(m) == 1 and m[0][1] == (1, 0) and isinstance(m[0][0][1], str) and m[0][0][1].startswith("len_")


class NonUniformLoop(Exception):
    def __init__(self, msg, loc):
        Exception.__init__(self, msg)
        self.loc = loc


def freeze(v, ren=None):
    v = unref(v)
    if isinstance(v, Sc):
        p = v.v
        if ren and hasattr(p, "rename_idx"):
            p = p.rename_idx(ren)
        return ("sc", p.key() if hasattr(p, "key") else repr(p))
    if isinstance(v, Mat):
        p = v.p
        if p is not None and ren:
            p = p.rename_idx(ren)
        return ("mat", None if p is None else p.key(), v.shape)
    if isinstance(v, Rec):
        return ("rec", v.adt, tuple((k, freeze(x, ren)) for k, x in sorted(v.f.items())))
    if isinstance(v, Opt):
        return ("opt", freeze(v.v, ren) if v.some else None)
    if isinstance(v, Tup):
        return ("tup", tuple(freeze(x, ren) for x in v.vs))
    if isinstance(v, VecV):
        return ("vec", v.dim, v.idx, freeze(v.elem, ren))
    return ("other", type(v).__name__, id(v) if not isinstance(v, (DimV,)) else v.name)


def rename_val(v, ren):
    v = unref(v)
    if isinstance(v, Sc):
        return Sc(v.v.rename_idx(ren))
    if isinstance(v, Mat):
        return Mat(v.p.rename_idx(ren) if v.p is not None else None, v.shape)
    if isinstance(v, Rec):
        return Rec(v.adt, {k: rename_val(x, ren) for k, x in v.f.items()})
    if isinstance(v, Opt):
        return Opt(v.some, rename_val(v.v, ren) if v.some else None)
    return v


def idx_name(i):
    if isinstance(i, Sc):
        cv = i.v.const_value()
        if cv is not None:
            return str(cv)
        if len(i.v.t) == 1:
            (m, c), = i.v.t.items()
            if c == 1 and len(m) == 1 and m[0][1] == (1, 0) and m[0][0][0] in ("v", "c"):
                return m[0][0][1]
        return "(" + i.v.show() + ")"
    raise Unsupported("index value %r" % (i,))


class MatIndex:
    """m[i] = v with a linear index on a row or column vector"""
    def __init__(self, m, i):
        self.m, self.i = m, i

    def place_get(self, k):
        return Sc(self.m.p)

    def place_set(self, k, v):
        m = self.m
        v = unref(v)
        if m.shape[1] == "1" and m.shape[0] != "1":
            sym = "$r"
        elif m.shape[0] == "1" and m.shape[1] != "1":
            sym = "$c"
        elif m.shape == ("1", "1"):
            m.p = v.v
            return
        else:
            raise Unsupported("linear index into a matrix of shape %s" % (m.shape,))
        d = delta(sym, self.i)
        m.p = d * v.v + (ONE - d) * m.p


# ------------------------------------------------------------------------------------------------ expectations
def res_operand(ty, extra_idx=None):
    sp = Spec(ty)
    r = sp.operand("res")
    if extra_idx:
        def f(a):
            if a[0] == "v" and a[1].startswith("res."):
                return Poly.atom(("v", a[1], (extra_idx,) + a[2]))
            return None
        for fld, _ in sp.parts():
            x = r.f[fld]
            if isinstance(x, Sc):
                r.f[fld] = Sc(x.v.subst(f))
            else:
                m = x.f["0"].v
                x.f["0"].v = Mat(m.p.subst(f), m.shape)
    return r


def V(name, *idx):
    return Poly.var(name, idx)


SCALAR = {
    # driver -> (type, [args], seeds per closure arg: {part: value}, output tuple)
    "first_derivative": ("Dual", ["x"], [{"re": V("x"), "eps": ONE}], ["re", "eps"]),
    "second_derivative": ("Dual2", ["x"], [{"re": V("x"), "v1": ONE, "v2": Poly()}], ["re", "v1", "v2"]),
    "third_derivative": ("Dual3", ["x"], [{"re": V("x"), "v1": ONE, "v2": Poly(), "v3": Poly()}], ["re", "v1", "v2", "v3"]),
    "second_partial_derivative": ("HyperDual", ["x", "y"],
                                  [{"re": V("x"), "eps1": ONE, "eps2": Poly(), "eps1eps2": Poly()},
                                   {"re": V("y"), "eps1": Poly(), "eps2": ONE, "eps1eps2": Poly()}],
                                  ["re", "eps1", "eps2", "eps1eps2"]),
    "third_partial_derivative": ("HyperHyperDual", ["x", "y", "z"],
                                 [dict({"re": V("x"), "eps1": ONE}, **{k: Poly() for k in ("eps2", "eps3", "eps1eps2", "eps1eps3", "eps2eps3", "eps1eps2eps3")}),
                                  dict({"re": V("y"), "eps2": ONE}, **{k: Poly() for k in ("eps1", "eps3", "eps1eps2", "eps1eps3", "eps2eps3", "eps1eps2eps3")}),
                                  dict({"re": V("z"), "eps3": ONE}, **{k: Poly() for k in ("eps1", "eps2", "eps1eps2", "eps1eps3", "eps2eps3", "eps1eps2eps3")})],
                                 ["re", "eps1", "eps2", "eps3", "eps1eps2", "eps1eps3", "eps2eps3", "eps1eps2eps3"]),
}


def run(tier):
    chk = Check("C05", tier, "other",
                "each of the 20 public drivers is evaluated abstractly with an opaque closure: (seeding) what the closure receives — "
                "real part = the input, first-order part = unit direction whose index is the element's own index (Kronecker delta on "
                "the loop counter / the i,j,k parameters), all other parts zero/absent, declared shapes; (extraction) the returned tuple "
                "lists the result's parts in declared order with row-vector parts transposed and absent parts unwrapped as zeros; "
                "(orientation) jacobian[(i,j)] = part j of output i, partial_hessian (M x N); (errors) an Err from the closure is returned "
                "unchanged; (wrappers) the infallible variant equals the try_ variant on Ok. A compile-fail witness pins the Jacobian "
                "orientation at the type level (thorough tier).",
                assumptions=["the values of the derivatives themselves are C03 applied to the seeded inputs",
                             "loops over the input vector are element-uniform (one evaluation for a symbolic index)"],
                trusted_base=["rustc type checker and name resolution", "ndv-export", "ndvlib/interp.py", "ndvlib/poly.py"])
    F = facts.load("default")
    fns = {b["name"]: b for b in F.bodies.values() if b["dk"] == "Fn" and not facts.binding_layer(b["path"])}
    for name, (ty, argn, seeds, outs) in SCALAR.items():
        scalar_driver(chk, F, fns, name, ty, argn, seeds, outs)
    vec3(chk, F, fns)
    gradient_like(chk, F, fns)
    # what a driver returns is the closure's result: the operations a closure is built from (the optional-derivative container and
    # + - * / in every operand form, also with absent parts) are the truncated-algebra operations (rule sets of C02/C07)
    from . import container, c08
    container.check_L1(chk, F)
    for ty in TYPES:
        c08.check_type(chk, F, ty, thorough=False, dual_only=True)
    if tier == "thorough":
        orientation_witness(chk)
    chk.floor("drivers analysed", chk.analysed.get("drivers analysed", 0), 20)
    return chk.finish()


def get_fn(chk, fns, name):
    b = fns.get(name)
    if b is None:
        chk.undecide("driver|%s" % name, "missing anchor: pub fn %s" % name)
    return b


def check_seed_scalar(chk, key, F, body, ty, got, want):
    got = unref(got)
    if not isinstance(got, Rec) or got.adt != ty:
        chk.ob(key, False, "closure receives a %s" % ty, body_loc(F, body), found=repr(got)[:200])
        return
    for fld, w in want.items():
        g = value_part_poly(got, fld)
        chk.ob("%s|%s" % (key, fld), equal(g, w), "seeding: real part is the input, the first-order part of the chosen direction is one, "
               "every other part is zero", body_loc(F, body), found=g.show(), required=w.show(), nontrivial=True)


def check_outputs(chk, key, F, body, val, want):
    """val: Tup of Sc/Mat/VecV ; want: list of (Poly, shape or None)"""
    val = unref(val)
    vs = val.vs if isinstance(val, Tup) else [val]
    if len(vs) != len(want):
        chk.ob(key, False, "driver returns %d components" % len(want), body_loc(F, body), found=repr(val)[:200])
        return
    for i, (v, (w, shape)) in enumerate(zip(vs, want)):
        v = unref(v)
        if isinstance(v, Sc):
            g, gs = v.v, None
        elif isinstance(v, Mat):
            g, gs = v.p, v.shape
        elif isinstance(v, VecV) and isinstance(unref(v.elem), Sc):
            g, gs = unref(v.elem).v.rename_idx({v.idx: "$r"}), (v.dim, "1")
        else:
            chk.ob("%s|out%d" % (key, i), False, "component %d is a scalar / matrix" % i, body_loc(F, body), found=repr(v)[:200])
            continue
        ok = equal(g, w) and (shape is None or gs == shape)
        chk.ob("%s|out%d" % (key, i), ok, "extraction: component %d of the returned tuple is the declared part, correctly oriented" % i,
               body_loc(F, body), found="%s %s" % (g.show(), gs or ""), required="%s %s" % (w.show(), shape or ""))


def run_driver(F, body, args, interp_cls=DriverInterp, ctx=None, before=None):
    it = interp_cls(F, DOMK, extern=NALGEBRA, ctx=ctx)
    if before:
        before(it)
    it.loop_sites = []
    it.elementwise_loops = True
    return it.call_body(body, args), it


def scalar_driver(chk, F, fns, name, ty, argn, seeds, outs):
    for variant in ("try_" + name, name):
        body = get_fn(chk, fns, variant)
        if body is None:
            continue
        chk.count("drivers analysed")
        key = "driver|%s" % variant
        seen = []
        res = Spec(ty).operand("res")

        def g(it, args, seen=seen, res=res, variant=variant):
            seen.append([deep(unref(a)) for a in args])
            return Res(True, res) if variant.startswith("try_") else res
        try:
            val, it = run_driver(F, body, [HostFn(g)] + [Sc(V(a)) for a in argn])
            val = unref(val)
            if variant.startswith("try_"):
                if not (isinstance(val, Res) and val.ok):
                    chk.ob(key + "|ok", False, "Ok from the closure gives Ok", body_loc(F, body), found=repr(val)[:200])
                    continue
                val = val.v
            if len(seen) != 1 or len(seen[0]) != len(seeds):
                chk.ob(key + "|calls", False, "the closure is called exactly once with %d arguments" % len(seeds), body_loc(F, body),
                       found="%d calls" % len(seen))
                continue
            for i, (got, want) in enumerate(zip(seen[0], seeds)):
                check_seed_scalar(chk, "%s|seed%d" % (key, i), F, body, ty, got, want)
            check_outputs(chk, key, F, body, val, [(value_part_poly(res, f), None) for f in outs])
            if variant.startswith("try_"):
                error_passthrough(chk, key, F, body, [Sc(V(a)) for a in argn])
        except Unsupported as ex:
            chk.undecide(key, "unsupported: %s" % ex, body_loc(F, body))


def error_passthrough(chk, key, F, body, args):
    err = Sc(V("err"))

    def g(it, a):
        return Res(False, err)
    val, it = run_driver(F, body, [HostFn(g)] + args)
    val = unref(val)
    ok = isinstance(val, Res) and not val.ok and val.v is err
    chk.ob(key + "|error", ok, "the closure's error is returned unchanged", body_loc(F, body), found=repr(val)[:120], required="Err(err)",
           nontrivial=False)


def vec3(chk, F, fns):
    ty = "HyperHyperDual"
    zeros = ("eps1eps2", "eps1eps3", "eps2eps3", "eps1eps2eps3")
    outs = ["re", "eps1", "eps2", "eps3", "eps1eps2", "eps1eps3", "eps2eps3", "eps1eps2eps3"]
    params = ("i", "j", "k")
    for variant in ("try_third_partial_derivative_vec", "third_partial_derivative_vec"):
        body = get_fn(chk, fns, variant)
        if body is None:
            continue
        chk.count("drivers analysed")
        key0 = "driver|%s" % variant
        res = Spec(ty).operand("res")
        runs = []

        def thunk(ctx):
            seen = []

            def g(it, args):
                seen.append([deep_vec(unref(a)) for a in args])
                return Res(True, res) if variant.startswith("try_") else res
            coincide = {}

            def before(it):
                # whether element k is the 1st / 2nd / 3rd chosen variable is fixed first: all 8 coincidence cases are explored
                for p_ in params:
                    coincide[p_] = it.compare("==", Sc(V("$k")), Sc(V(p_))).b
            x = VecV(Sc(V("x", "$k")), "n", "$k")
            val, it = run_driver(F, body, [HostFn(g), x, Sc(V("i")), Sc(V("j")), Sc(V("k"))], ctx=ctx, before=before)
            runs.append((coincide, seen, val))
            return val
        try:
            explore(thunk, max_paths=64)
        except Unsupported as ex:
            chk.undecide(key0, "unsupported: %s" % ex, body_loc(F, body))
            continue
        for coincide, seen, val in runs:
            tag = "".join("=" if coincide[p_] else "x" for p_ in params)
            key = key0 if tag == "xxx" else "%s|k%s" % (key0, tag)

            def fix(p, coincide=coincide):
                def f(a):
                    if a[0] == "v" and a[1] == "δ" and a[2][0] == "$k" and a[2][1] in coincide:
                        return Poly.const(1 if coincide[a[2][1]] else 0)
                    return None
                return p.subst(f)
            val = unref(val)
            if variant.startswith("try_"):
                val = val.v if isinstance(val, Res) and val.ok else val
            if len(seen) != 1 or not isinstance(seen[0][0], VecV):
                chk.ob(key + "|calls", False, "the closure is called once with the seeded slice", body_loc(F, body), found=repr(seen)[:200])
                continue
            el = unref(seen[0][0].elem)
            if isinstance(el, Rec):
                el = Rec(el.adt, {f_: (Sc(fix(unref(x_).v)) if isinstance(unref(x_), Sc) else x_) for f_, x_ in el.f.items()})
            want = {"re": V("x", "$k"), "eps1": fix(delta("$k", "i")), "eps2": fix(delta("$k", "j")), "eps3": fix(delta("$k", "k"))}
            want.update({z: Poly() for z in zeros})
            check_seed_scalar(chk, key + "|seed", F, body, ty, el, want)
            if tag == "xxx":
                check_outputs(chk, key, F, body, val, [(value_part_poly(res, f), None) for f in outs])
        if variant.startswith("try_"):
            try:
                error_passthrough_paths(chk, key0, F, body, lambda: [VecV(Sc(V("x", "$k")), "n", "$k"), Sc(V("i")), Sc(V("j")), Sc(V("k"))])
            except Unsupported as ex:
                chk.undecide(key0 + "|error", "unsupported: %s" % ex, body_loc(F, body))


def error_passthrough_paths(chk, key, F, body, mk_args):
    err = Sc(V("err"))
    vals = []

    def thunk(ctx):
        val, it = run_driver(F, body, [HostFn(lambda it, a: Res(False, err))] + mk_args(), ctx=ctx)
        vals.append(unref(val))
        return val
    explore(thunk, max_paths=64)
    ok = all(isinstance(v, Res) and not v.ok and v.v is err for v in vals)
    chk.ob(key + "|error", ok, "the closure's error is returned unchanged", body_loc(F, body), found=repr(vals[:2])[:120], required="Err(err)",
           nontrivial=False)


def deep_vec(v):
    if isinstance(v, VecV):
        return VecV(deep(v.elem), v.dim, v.idx)
    return deep(v)


def gradient_like(chk, F, fns):
    cases = {
        "gradient": dict(ty="DualVec", ins=[("x", "D")], seed=[("eps", ("D", "1"), "$r")], absent=[[]],
                         outs=lambda r: [(V("res.re"), None), (V("res.eps", "$r"), ("D", "1"))]),
        "hessian": dict(ty="Dual2Vec", ins=[("x", "D")], seed=[("v1", ("1", "D"), "$c")], absent=[["v2"]],
                        outs=lambda r: [(V("res.re"), None), (V("res.v1", "$r"), ("D", "1")), (V("res.v2", "$r", "$c"), ("D", "D"))]),
        "partial_hessian": dict(ty="HyperDualVec", ins=[("x", "M"), ("y", "N")],
                                seed=[("eps1", ("M", "1"), "$r"), ("eps2", ("1", "N"), "$c")], absent=[["eps2", "eps1eps2"], ["eps1", "eps1eps2"]],
                                outs=lambda r: [(V("res.re"), None), (V("res.eps1", "$r"), ("M", "1")), (V("res.eps2", "$r"), ("N", "1")),
                                                (V("res.eps1eps2", "$r", "$c"), ("M", "N"))]),
        "jacobian": dict(ty="DualVec", ins=[("x", "N")], seed=[("eps", ("N", "1"), "$r")], absent=[[]],
                         outs=lambda r: [(V("res.re", "$r"), ("M", "1")), (V("res.eps", "$r", "$c"), ("M", "N"))], vec_out="M"),
    }
    for name, cs in cases.items():
        for variant in ("try_" + name, name):
            body = get_fn(chk, fns, variant)
            if body is None:
                continue
            chk.count("drivers analysed")
            ty = cs["ty"]
            # every presence pattern of the closure's result: an absent derivative part is a zero part in the returned tuple
            pats = presence_patterns(ty) if not cs.get("vec_out") else [{"eps": True}, {"eps": False}]
            for pat in reversed(pats):
                full = all(pat.values())
                key = "driver|%s" % variant + ("" if full else "|result=%s" % pres_tag(pat))
                gradient_case(chk, F, body, variant, cs, ty, key, pat, full)


def zero_absent(p, pat):
    def f(a):
        if a[0] == "v" and a[1].startswith("res.") and not pat.get(a[1][4:], True):
            return Poly()
        return None
    return p.subst(f)


def gradient_case(chk, F, body, variant, cs, ty, key, pat, full):
            seen = []
            if cs.get("vec_out"):
                # vector-valued closure: element m of the output is a DualVec whose parts are indexed by $m
                eps = Opt(True, Mat(V("res.eps", "$m", "$r"), (cs["ins"][0][1], "1"))) if pat["eps"] else Opt(False)
                el = Rec(ty, {"re": Sc(V("res.re", "$m")), "eps": Rec("Derivative", {"0": eps, "1": PHANTOM}), "f": PHANTOM})
                res = VecV(el, cs["vec_out"], "$m")
            else:
                res = Spec(ty, absent_set("res", pat)).operand("res", pat)
                # rename the generic dimension names of the symbolic result to the driver's
                fix_shapes(res, ty, cs)

            def g(it, args, seen=seen, res=res, variant=variant):
                seen.append([deep_vec(unref(a)) for a in args])
                return Res(True, res) if variant.startswith("try_") else res
            try:
                def mk_args():
                    return [VecV(Sc(V(nm, "$k")), dim, "$k") for nm, dim in cs["ins"]]
                val, it = run_driver(F, body, [HostFn(g)] + mk_args())
                val = unref(val)
                if variant.startswith("try_"):
                    if not (isinstance(val, Res) and val.ok):
                        chk.ob(key + "|ok", False, "Ok from the closure gives Ok", body_loc(F, body), found=repr(val)[:200])
                        return
                    val = val.v
                if len(seen) != 1 or len(seen[0]) != len(cs["ins"]):
                    chk.ob(key + "|calls", False, "the closure is called exactly once", body_loc(F, body), found="%d calls" % len(seen))
                    return
                for i, ((nm, dim), (fld, shape, sym), absent) in enumerate(zip(cs["ins"], cs["seed"], cs["absent"])):
                    if not full:
                        break   # the seeding does not depend on the closure's result: checked once
                    v = seen[0][i]
                    ks = "%s|seed%d" % (key, i)
                    if not isinstance(v, VecV) or not isinstance(unref(v.elem), Rec) or unref(v.elem).adt != ty:
                        chk.ob(ks, False, "closure receives a vector of %s" % ty, body_loc(F, body), found=repr(v)[:200])
                        continue
                    el = unref(v.elem)
                    g_re = value_part_poly(el, "re")
                    chk.ob(ks + "|re", equal(g_re, V(nm, v.idx)) and v.dim == dim, "element k of the seeded vector has real part %s[k]" % nm,
                           body_loc(F, body), found=g_re.show(), required=V(nm, v.idx).show())
                    d = unref(el.f[fld])
                    o = unref(d.f["0"]) if isinstance(d, Rec) else None
                    ok = o is not None and o.some and isinstance(unref(o.v), Mat)
                    if ok:
                        m = unref(o.v)
                        wantp = delta(sym, v.idx)
                        ok = equal(m.p, wantp) and m.shape == shape
                        found = "%s %s" % (m.p.show(), m.shape)
                    else:
                        found = repr(d)[:120]
                    chk.ob(ks + "|" + fld, ok, "seeding: the first-order part of element k is the unit vector e_k (index = the element's own "
                           "index) with the declared shape", body_loc(F, body), found=found, required="%s %s" % (delta(sym, v.idx).show(), shape))
                    for ab in absent:
                        dd = unref(el.f[ab])
                        oo = unref(dd.f["0"])
                        chk.ob(ks + "|" + ab, not oo.some, "other parts of the seeded inputs are absent (zero)", body_loc(F, body),
                               found=repr(oo)[:80], nontrivial=False)
                check_outputs(chk, key, F, body, val, [(zero_absent(w, pat), shp) for (w, shp) in cs["outs"](res)])
                if variant.startswith("try_") and full:
                    error_passthrough(chk, key, F, body, mk_args())
            except NonUniformLoop as ex:
                chk.ob(key + "|uniform", False, "every element of the input is seeded by the same rule applied to its own index "
                       "(no state carried from earlier elements)", ex.loc, found=str(ex)[:400], required="element-uniform seeding loop")
            except Unsupported as ex:
                chk.undecide(key, "unsupported: %s" % ex, body_loc(F, body))


def fix_shapes(res, ty, cs):
    """the Spec operand uses the grading's dimension names; rename to the driver's input dimensions"""
    dims = [d for _, d in cs["ins"]]
    ren = {}
    if ty == "DualVec" or ty == "Dual2Vec":
        ren = {"D": dims[0]}
    elif ty == "HyperDualVec":
        ren = {"M": dims[0], "N": dims[1]}
    for fld, x in res.f.items():
        if isinstance(x, Rec) and x.adt == "Derivative" and x.f["0"].some:
            m = x.f["0"].v
            x.f["0"].v = Mat(m.p, tuple(ren.get(s, s) for s in m.shape))


def orientation_witness(chk):
    import subprocess, os
    from ..facts import VERIF, REPO
    hdir = os.path.join(VERIF, "harness", "orient")
    r = subprocess.run(["bash", os.path.join(hdir, "run.sh")], capture_output=True, text=True)
    ok = r.returncode == 0
    chk.ob("witness|jacobian-orientation", ok,
           "compile-fail witness: a 3->2 function's Jacobian binds to SMatrix<f64,2,3> and not to SMatrix<f64,3,2>", hdir,
           found=(r.stdout + r.stderr)[-600:], required="twin compiles, witness fails with E0308", nontrivial=True)
