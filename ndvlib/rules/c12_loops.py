"""C12 (formula level): the loop bodies of src/linalg.rs against the textbook schemes.

Every loop body is evaluated ONCE with its loop variable as a symbol (element-uniform, like C13.3/C05); array reads are
atoms `arr[idx]`, every write `arr[idx] = rhs` is recorded together with the enclosing loop frames (variable, range) and the
path condition.  The recorded updates are then compared with the update statements of the textbook algorithm (Doolittle LU
with partial pivoting, forward/back substitution, cyclic Jacobi rotations as in Numerical Recipes).  This decides that the
code IS the textbook scheme statement by statement; it does not establish the loop invariants (not claimed)."""
from fractions import Fraction as Fr

from .common import *
from ..interp import Ref, DimV, UNIT, Unit, StrV
from .c13 import is_for


class ArrV:
    """an ndarray (Array1 / Array2) seen through its element reads and writes"""
    def __init__(self, name):
        self.name = name

    def __repr__(self):
        return "Arr(%s)" % self.name


class BreakEx(Exception):
    pass


def idx_str(v):
    v = unref(v)
    if isinstance(v, Sc):
        return v.v.show()
    if isinstance(v, Tup):
        return tuple(idx_str(x) for x in v.vs)
    raise Unsupported("index %r" % (v,))


class ElemPlace:
    def __init__(self, interp, arr, idx):
        self.it, self.arr, self.idx = interp, arr, idx

    def atom(self):
        return Sc(Poly.var(self.arr.name, self.idx))

    def place_get(self, k):
        return self.atom()

    def place_set(self, k, v):
        v = unref(v)
        if not isinstance(v, Sc):
            raise Unsupported("array element assignment of %r" % (v,))
        self.it.record(self.arr.name, self.idx, v.v)


class LoopInterp(Interp):
    def __init__(self, F, ctx):
        Interp.__init__(self, F, DOMK, ctx=ctx)
        self.frames = []      # (symbol, start show, end show, reversed)
        self.updates = []     # dict(frames, target, idx, rhs)
        self.events = []      # whole-array operations
        self.loop_counter = 0
        self.loop_ids = {}
        self.scalar_mode = True

    def record(self, name, idx, rhs):
        self.updates.append({"frames": tuple(self.frames), "arr": name, "idx": idx, "rhs": rhs,
                             "cond": tuple(d for (k, d, b, f) in self.ctx.trace if True)})

    # ---- arrays
    def index_of(self, e, env):
        base = unref(self.ev(e["a"], env))
        idx = unref(self.ev(e["b"], env))
        return base, idx

    def ev_index(self, e, env):
        base, idx = self.index_of(e, env)
        if isinstance(base, ArrV):
            i = idx_str(idx)
            return Sc(Poly.var(base.name, i if isinstance(i, tuple) else (i,)))
        if isinstance(base, Tup):
            return base.vs[0] if isinstance(idx, Sc) else self.unsupported("tuple index", e)
        return Interp.ev_index(self, e, env)

    def place(self, e, env):
        if e["k"] == "index":
            base, idx = self.index_of(e, env)
            if isinstance(base, ArrV):
                i = idx_str(idx)
                return (ElemPlace(self, base, i if isinstance(i, tuple) else (i,)), 0)
        return Interp.place(self, e, env)

    def leaf_call(self, name, path, ipath, c, args, e):
        a0 = unref(args[0]) if args else None
        if isinstance(a0, ArrV):
            if name in ("len", "nrows", "ncols"):
                return Sc(Poly.sym("n"))
            if name == "shape":
                return Tup([Sc(Poly.sym("n")), Sc(Poly.sym("n"))])
            if name in ("to_owned", "clone", "view", "view_mut", "diag", "column", "row"):
                return ArrV("%s.%s" % (a0.name, name)) if name in ("diag", "column", "row") else a0
            if name == "swap" and len(args) == 3:
                i, j = idx_str(args[1]), idx_str(args[2])
                i = i if isinstance(i, tuple) else (i,)
                j = j if isinstance(j, tuple) else (j,)
                self.record(a0.name, i, Poly.var(a0.name, j))
                self.record(a0.name, j, Poly.var(a0.name, i))
                return UNIT
            if name in ("fill", "assign", "add_assign", "sub_assign"):
                self.events.append((tuple(self.frames), name, a0.name, repr(unref(args[1])) if len(args) > 1 else ""))
                return UNIT
            self.events.append((tuple(self.frames), name, a0.name, ""))
            return ArrV("%s.%s" % (a0.name, name))
        if name in ("zeros", "eye", "ones") and "ndarray" in (path + ipath):
            self.loop_counter += 0
            return ArrV("new:%s" % name)
        if isinstance(a0, Rec) and a0.adt in ("std::Range", "std::RangeInclusive") and name == "rev":
            return Rec(a0.adt, dict(a0.f, rev=BoolV(True)))
        if name == "into_iter" and isinstance(a0, Rec) and a0.adt.startswith("std::Range"):
            return a0
        return Interp.leaf_call(self, name, path, ipath, c, args, e)

    def binop(self, op, a, b, c, e):
        ua, ub = unref(a), unref(b)
        if isinstance(ua, ArrV) or isinstance(ub, ArrV):
            self.events.append((tuple(self.frames), "binop" + op, repr(ua), repr(ub)))
            return ua if isinstance(ua, ArrV) else ub
        return Interp.binop(self, op, a, b, c, e)

    def ev_assignop(self, e, env):
        # `bw += &zw` on whole arrays
        try:
            tgt = unref(self.ev(e["a"], env))
        except Unsupported:
            tgt = None
        if isinstance(tgt, ArrV):
            rhs = unref(self.ev(e["b"], env))
            self.events.append((tuple(self.frames), "assignop" + e["op"], tgt.name, repr(rhs)))
            return UNIT
        return Interp.ev_assignop(self, e, env)

    # ---- loops
    def ev_for(self, e, env):
        call = e["scrut"]
        rng = unref(self.ev(call["args"][0], env))
        if not (isinstance(rng, Rec) and rng.adt.startswith("std::Range")):
            self.unsupported("for loop over %r" % (rng,), e)
        arm = e["arms"][0]
        loop = arm["body"]
        inner = loop["body"]["stmts"][0]["e"] if loop["body"]["stmts"] else loop["body"]["tail"]
        some_arm = [a for a in inner["arms"] if a["pat"].get("fields") or a["pat"].get("pats")][0]
        pat = some_arm["pat"]["fields"][0]["pat"] if some_arm["pat"]["k"] == "struct" else some_arm["pat"]["pats"][0]
        # loops are numbered by their syntactic (pre-order) position in the body, not by evaluation order
        sym = "v%d" % self.loop_ids.get(id(e), 900 + self.loop_counter)
        self.loop_counter += 1
        lo, hi = unref(rng.f["start"]), unref(rng.f["end"])
        self.frames.append((sym, lo.v.show(), hi.v.show(), "rev" in rng.f))
        if not self.bind(pat, Sc(Poly.var(sym)), env):
            self.unsupported("for pattern", e)
        try:
            self.ev(some_arm["body"], env)
        except BreakEx:
            pass
        self.frames.pop()
        return UNIT

    def ev_break(self, e, env):
        raise BreakEx()

    def compare(self, op, a, b):
        # comparisons of loop symbols with themselves are decided; everything else is a free decision
        return Interp.compare(self, op, a, b)


def updates_of(F, body, args_fn, max_paths=256):
    """all recorded updates over all paths: list of dict(frames, arr, idx, rhs)"""
    all_updates = []
    events = []

    from .. import walk as _walk
    loop_ids = {}
    for node in _walk.walk_body(body):
        if is_for(node) and node["scrut"].get("k") == "call" and (_walk.callee_of(node["scrut"]) or {}).get("name") == "into_iter":
            loop_ids[id(node)] = len(loop_ids)

    def thunk(ctx):
        it = LoopInterp(F, ctx)
        it.loop_ids = loop_ids
        try:
            return it.call_body(body, args_fn())
        finally:
            all_updates.extend(it.updates)
            events.extend(it.events)
    explore(thunk, max_paths=max_paths)
    # dedupe
    seen = {}
    for u in all_updates:
        k = (u["frames"], u["arr"], u["idx"], u["rhs"].key())
        seen.setdefault(k, u)
    return list(seen.values()), events


def A(name, *idx):
    return Poly.var(name, tuple(idx))


def has_update(updates, arr, idx, rhs, frames=None):
    for u in updates:
        if u["arr"] == arr and u["idx"] == tuple(idx) and equal(u["rhs"], rhs):
            if frames is None or [(f[0], f[1], f[2], f[3]) for f in u["frames"]] == frames:
                return True
    return False


def describe(updates, arr=None):
    out = []
    for u in updates:
        if arr is None or u["arr"] == arr:
            out.append("%s%s <- %s  in %s" % (u["arr"], list(u["idx"]), u["rhs"].show(), [f[0] + ":" + f[1] + ".." + f[2] + ("(rev)" if f[3] else "") for f in u["frames"]]))
    return out


def expect(chk, key, rule, F, body, updates, wanted, arrays):
    """wanted: list of (arr, idx, rhs Poly, frames); every wanted update must have been recorded and no other update of
    the listed arrays may exist"""
    missing = []
    for arr, idx, rhs, frames in wanted:
        if not has_update(updates, arr, idx, rhs, frames):
            missing.append("%s%s <- %s in %s" % (arr, list(idx), rhs.show(), [f[0] + ":" + f[1] + ".." + f[2] + ("(rev)" if f[3] else "") for f in frames]))
    extra = []
    for u in updates:
        if u["arr"] in arrays and not any(u["arr"] == w[0] and u["idx"] == tuple(w[1]) and equal(u["rhs"], w[2]) for w in wanted):
            extra.append(describe([u])[0])
    chk.ob(key, not missing and not extra, rule, body_loc(F, body),
           found=("missing: %s; " % missing[:3] if missing else "") + ("unexpected: %s" % extra[:3] if extra else "") or
           "%d update statements match" % len(wanted),
           required="the update statements of the textbook scheme (and no others on %s)" % sorted(arrays))


def run_loops(chk, F):
    fns = {b["path"]: b for b in F.bodies.values() if b["path"].startswith("linalg::")}

    def get(suffix):
        bs = [b for p, b in fns.items() if p.endswith(suffix)]
        return bs[0] if len(bs) == 1 else None
    n = "n"
    # ------------------------------------------------------------------ LU::new
    body = get("LU::<T, F>::new")
    if body is None:
        chk.undecide("loops|lu-new", "missing anchor")
    else:
        try:
            ups, ev = updates_of(F, body, lambda: [ArrV("a")])
            f1 = ("v1", "0", n, False)
            wanted = [
                ("new:zeros", ("v0",), A("v0"), [("v0", "0", n, False)]),
                # row exchange with the row v2 found by the pivot search (whole rows)
                ("a", ("v1", "v3"), A("a", "v2", "v3"), [f1, ("v3", "0", n, False)]),
                ("a", ("v2", "v3"), A("a", "v1", "v3"), [f1, ("v3", "0", n, False)]),
                ("new:zeros", ("v1",), A("new:zeros", "v2"), [f1]),
                ("new:zeros", ("v2",), A("new:zeros", "v1"), [f1]),
                # Doolittle elimination
                ("a", ("v4", "v1"), A("a", "v4", "v1") * A("a", "v1", "v1").recip(), [f1, ("v4", "1 + v1", n, False)]),
                ("a", ("v4", "v5"), A("a", "v4", "v5") - A("a", "v4", "v1") * A("a", "v1", "v5"),
                 [f1, ("v4", "1 + v1", n, False), ("v5", "1 + v1", n, False)]),
            ]
            expect(chk, "loops|lu-new", "LU::new is Doolittle elimination with partial pivoting, statement by statement: whole-row "
                   "exchange with the pivot row, l_ji = a_ji / a_ii, a_jk -= l_ji a_ik for j, k > i", F, body, ups, wanted, {"a", "new:zeros"})
            chk.count("loop-body update statements checked", len(wanted))
        except Unsupported as ex:
            chk.undecide("loops|lu-new", "unsupported: %s" % ex, body_loc(F, body))
    # ------------------------------------------------------------------ solve
    body = get("LU::<T, F>::solve")
    if body is None:
        chk.undecide("loops|lu-solve", "missing anchor")
    else:
        try:
            ups, ev = updates_of(F, body, lambda: [lu_self(), ArrV("b")])
            x = "new:zeros"
            wanted = [
                (x, ("v0",), A("b", "self.p[v0]"), [("v0", "0", n, False)]),
                (x, ("v0",), A(x, "v0") - A("self.a", "v0", "v1") * A(x, "v1"), [("v0", "0", n, False), ("v1", "0", "v0", False)]),
                (x, ("v2",), A(x, "v2") - A("self.a", "v2", "v3") * A(x, "v3"), [("v2", "0", n, True), ("v3", "1 + v2", n, False)]),
                (x, ("v2",), A(x, "v2") * A("self.a", "v2", "v2").recip(), [("v2", "0", n, True)]),
            ]
            expect(chk, "loops|lu-solve", "solve is forward substitution with the unit lower factor on the permuted right-hand side followed "
                   "by back substitution with division by the pivots", F, body, ups, wanted, {x})
            chk.count("loop-body update statements checked", len(wanted))
        except Unsupported as ex:
            chk.undecide("loops|lu-solve", "unsupported: %s" % ex, body_loc(F, body))
    # ------------------------------------------------------------------ inverse
    body = get("LU::<T, F>::inverse")
    if body is None:
        chk.undecide("loops|lu-inverse", "missing anchor")
    else:
        try:
            ups, ev = updates_of(F, body, lambda: [lu_self()])
            ia = "new:zeros"
            f0 = ("v0", "0", n, False)
            wanted = [
                (ia, ("v1", "v0"), Poly.const(1), [f0, ("v1", "0", n, False)]),
                (ia, ("v1", "v0"), Poly.const(0), [f0, ("v1", "0", n, False)]),
                (ia, ("v1", "v0"), A(ia, "v1", "v0") - A("self.a", "v1", "v2") * A(ia, "v2", "v0"), [f0, ("v1", "0", n, False), ("v2", "0", "v1", False)]),
                (ia, ("v3", "v0"), A(ia, "v3", "v0") - A("self.a", "v3", "v4") * A(ia, "v4", "v0"), [f0, ("v3", "0", n, True), ("v4", "1 + v3", n, False)]),
                (ia, ("v3", "v0"), A(ia, "v3", "v0") * A("self.a", "v3", "v3").recip(), [f0, ("v3", "0", n, True)]),
            ]
            expect(chk, "loops|lu-inverse", "inverse solves A X = I column by column with the same substitution scheme as solve "
                   "(right-hand side: the permuted unit vector)", F, body, ups, wanted, {ia})
            chk.count("loop-body update statements checked", len(wanted))
        except Unsupported as ex:
            chk.undecide("loops|lu-inverse", "unsupported: %s" % ex, body_loc(F, body))
    # ------------------------------------------------------------------ Jacobi rotations
    body = get("jacobi_eigenvalue")
    if body is None:
        chk.undecide("loops|jacobi", "missing anchor")
    else:
        jacobi(chk, F, body)


def lu_self():
    return Rec("LU", {"a": ArrV("self.a"), "p": ArrV("self.p"), "p_count": Sc(Poly.var("self.p_count")), "f": PHANTOM})


def jacobi(chk, F, body):
    try:
        ups, ev = updates_of(F, body, lambda: [ArrV("a"), Sc(Poly.var("max_iter"))], max_paths=512)
    except Unsupported as ex:
        chk.undecide("loops|jacobi", "unsupported: %s" % ex, body_loc(F, body))
        return
    # the rotation parameter t takes two forms (small-angle shortcut and the stable root); for each t found in the recorded
    # updates of d[p] the four rotation loops must apply  g' = g - s (h + g tau),  h' = h + s (g - h tau)
    # with c = 1/sqrt(t^2+1), s = t c, tau = s/(1+c)  (Numerical Recipes, `jacobi`)
    P, Q = "v3", "v4"   # loop symbols of `for p in 0..n` / `for q in p+1..n` (pre-order numbering of the loops)
    apq = A("a", P, Q)
    in_sweep = lambda u: len(u["frames"]) == 3 and u["frames"][-1][0] == Q and u["frames"][-2][0] == P
    ups = [u for u in ups if in_sweep(u) or (len(u["frames"]) == 4 and u["frames"][2][0] == Q)]
    d_updates = [u for u in ups if u["arr"] == "a.diag" and u["idx"] == (P,)]
    ts = []
    for u in d_updates:
        # d[p] <- d[p] - t a_pq   =>  t = (d[p] - rhs) / a_pq
        diff = A("a.diag", P) - u["rhs"]
        t = diff * apq.recip()
        if not any(equal(t, x) for x in ts):
            ts.append(t)
    theta = (A("a.diag", Q) - A("a.diag", P)) * Fr(1, 2) * apq.recip()
    root = (theta * theta + 1).pow(E(Fr(1, 2)))
    want_ts = [apq * (A("a.diag", Q) - A("a.diag", P)).recip(),
               (apply_fn("abs", theta) + root).recip(), -((apply_fn("abs", theta) + root).recip())]
    ok_t = bool(ts) and all(any(equal(t, w) for w in want_ts) for t in ts) and len(ts) == 3
    chk.ob("loops|jacobi|t", ok_t, "the rotation parameter is t = a_pq/(d_q - d_p) in the small-angle case and "
           "t = sgn(theta)/(|theta| + sqrt(theta^2 + 1)), theta = (d_q - d_p)/(2 a_pq), otherwise", body_loc(F, body),
           found=[t.show()[:120] for t in ts], required=[w.show()[:120] for w in want_ts])
    n = "n"
    loops = [
        # (array, g index, h index, frames of the inner loop)
        ("a", ("v5", P), ("v5", Q), ("v5", "0", P)),
        ("a", (P, "v6"), ("v6", Q), ("v6", "1 + " + P, Q)),
        ("a", (P, "v7"), (Q, "v7"), ("v7", "1 + " + Q, n)),
        ("new:eye", ("v8", P), ("v8", Q), ("v8", "0", n)),
    ]
    n_ok = 0
    problems = []
    for t in ts:
        c = (t * t + 1).pow(E(Fr(-1, 2)))
        s = t * c
        tau = s * (c + 1).recip()
        for arr, gi, hi, fr in loops:
            g, h = A(arr, *gi), A(arr, *hi)
            wg = g - s * (h + g * tau)
            wh = h + s * (g - h * tau)
            okg = any(u["arr"] == arr and u["idx"] == gi and equal(u["rhs"], wg) for u in ups)
            okh = any(u["arr"] == arr and u["idx"] == hi and equal(u["rhs"], wh) for u in ups)
            if okg and okh:
                n_ok += 1
            else:
                problems.append("%s%s / %s%s" % (arr, list(gi), arr, list(hi)))
    chk.ob("loops|jacobi|rotations", bool(ts) and not problems, "all four rotation loops (rows above p, between p and q, beyond q, and the "
           "eigenvector columns) apply g' = g - s(h + g tau), h' = h + s(g - h tau) with c = 1/sqrt(t^2+1), s = t c, tau = s/(1+c)",
           body_loc(F, body), found="rotation loops not matching: %s" % sorted(set(problems)) if problems else "%d loop/t combinations match" % n_ok,
           required="4 loops x %d forms of t" % len(ts))
    # loop ranges of the four rotation loops
    fr_ok = True
    found_fr = []
    for arr, gi, hi, fr in loops:
        got = [f for u in ups if u["arr"] == arr and u["idx"] == gi for f in u["frames"] if f[0] == fr[0]]
        found_fr.append(got[:1])
        if not got or not all(f[1] == fr[1] and f[2] == fr[2] and not f[3] for f in got):
            fr_ok = False
    chk.ob("loops|jacobi|ranges", fr_ok, "the rotation loops cover j < p, p < j < q, j > q and all rows of the eigenvector matrix",
           body_loc(F, body), found=found_fr, required=[l[3] for l in loops], nontrivial=False)
    # the eigenvalue updates and the annihilated element
    t_any = ts[0] if ts else None
    diag_ok = bool(ts)
    for t in ts:
        hh = t * apq
        diag_ok = diag_ok and any(u["arr"] == "a.diag" and u["idx"] == (P,) and equal(u["rhs"], A("a.diag", P) - hh) for u in ups) \
            and any(u["arr"] == "a.diag" and u["idx"] == (Q,) and equal(u["rhs"], A("a.diag", Q) + hh) for u in ups) \
            and any(u["arr"] == "new:zeros" and u["idx"] == (P,) and equal(u["rhs"], A("new:zeros", P) - hh) for u in ups) \
            and any(u["arr"] == "new:zeros" and u["idx"] == (Q,) and equal(u["rhs"], A("new:zeros", Q) + hh) for u in ups)
    zero_ok = any(u["arr"] == "a" and u["idx"] == (P, Q) and u["rhs"].is_zero_syntactic() for u in ups)
    chk.ob("loops|jacobi|diagonal", diag_ok and zero_ok, "d_p -= t a_pq, d_q += t a_pq (accumulated in z as well) and a_pq is annihilated",
           body_loc(F, body), found="diagonal updates ok: %s, a_pq <- 0: %s" % (diag_ok, zero_ok))
    chk.count("loop-body update statements checked", 8 * max(1, len(ts)) + 5)
