"""C12 (formula level): the loop bodies of src/linalg.rs against the textbook schemes.

Every loop body is evaluated ONCE with its loop variable as a symbol (element-uniform, like C13.3/C05); array reads are
atoms `arr[idx]`, every write `arr[idx] = rhs` is recorded together with the enclosing loop frames (variable, range) and the
path condition.  The recorded updates are then compared with the update statements of the textbook algorithm (Doolittle LU
with partial pivoting, forward/back substitution, cyclic Jacobi rotations as in Numerical Recipes).  This decides that the
code IS the textbook scheme statement by statement; it does not establish the loop invariants (not claimed)."""
from fractions import Fraction as Fr

from .common import *
from ..interp import BoolV, Ref, DimV, UNIT, Unit, StrV
from .c13 import is_for


class ArrV:
    """an ndarray (Array1 / Array2) seen through its element reads and writes"""
    def __init__(self, name, init=None):
        self.name = name
        self.init = init

    view = None

    def __repr__(self):
        return "Arr(%s)" % self.name


class BreakEx(Exception):
    pass


class ContinueEx(Exception):
    pass


class IterSym:
    """an iterator pipeline over ranges / array elements: `frames` are its bound variables with their ranges, `item` the value it yields"""
    def __init__(self, frames, item):
        self.frames, self.item = list(frames), item

    def __repr__(self):
        return "IterSym(%s, %r)" % ([f[0] for f in self.frames], self.item)


def mentions(comp, sym):
    import re as _re
    return _re.search(r"(?<![A-Za-z0-9_$])%s(?![A-Za-z0-9_])" % _re.escape(sym), comp) is not None


def comp_rel(a, b, loops):
    """relation of two index components: '=' (identical), '!' (provably different), '?' (unknown)"""
    if a == b:
        return "="
    def strip(x):
        return x[4:] if x.startswith("1 + ") else None
    # constants
    try:
        if Fr(a) != Fr(b):
            return "!"
    except (ValueError, ZeroDivisionError):
        pass
    if strip(a) == b or strip(b) == a:
        return "!"          # x + 1  vs  x
    for x, y in ((a, b), (b, a)):
        r = loops.get(x)
        if r is not None:
            lo, hi = r[0], r[1]
            if lo == "1 + " + y or hi == y:
                return "!"  # x in y+1..  or  x in ..y
            ry = loops.get(y)
            if ry is not None and (ry[1] == x):
                return "!"
    return "?"


def may_alias(i1, i2, loops):
    if len(i1) != len(i2):
        return True
    return not any(comp_rel(a, b, loops) == "!" for a, b in zip(i1, i2))


def big_op(op, frames, body, polys):
    """Σ / Π over the frames' ranges with the bound variables renamed canonically (κ1, κ2, ... by nesting depth)"""
    from ..interp import fn_n
    ren = {f[0]: "κ%d" % (i + 1) for i, f in enumerate(frames)}

    def r(p):
        def f(a):
            if a[0] == "v" and not a[2] and a[1] in ren:
                return Poly.var(ren[a[1]])
            if a[0] == "v" and a[2]:
                new = tuple(_rename_comp(c, ren) for c in a[2])
                if new != a[2]:
                    return Poly.atom(("v", a[1], new))
            return None
        return p.subst(f)
    b = r(body)
    c = Fr(1)
    if op == "Σ" and b.t:
        # Σ is linear: the rational content (coefficient of the first monomial in canonical order) is moved in front
        m0 = sorted(b.t, key=repr)[0]
        c = b.t[m0]
        b = b.scale(1 / c)
    parts = [b]
    for f in frames:
        lo, hi = polys[f[0]]
        parts += [r(lo), r(hi)]
    return fn_n(DOMK, op, *parts).scale(c)


def _rename_comp(c, ren):
    import re as _re
    for k, v in ren.items():
        c = _re.sub(r"(?<![A-Za-z0-9_$])%s(?![A-Za-z0-9_])" % _re.escape(k), v, c)
    return c


def idx_str(v):
    v = unref(v)
    if isinstance(v, Sc):
        return v.v.show()
    if isinstance(v, Tup):
        return tuple(idx_str(x) for x in v.vs)
    raise Unsupported("index %r" % (v,))


class ElemPlace:
    def __init__(self, interp, arr, idx):
        self.it, self.arr, self.idx = interp, arr, idx

    def atom(self):
        return Sc(self.it.read(self.arr.name, self.idx))

    def place_get(self, k):
        return self.atom()

    def place_set(self, k, v):
        v = unref(v)
        if not isinstance(v, Sc):
            raise Unsupported("array element assignment of %r" % (v,))
        self.it.record(self.arr.name, self.idx, v.v)


class LoopInterp(Interp):
    def __init__(self, F, ctx):
        Interp.__init__(self, F, DOMK, ctx=ctx)
        self.frames = []      # (symbol, start show, end show, reversed)
        self.updates = []     # dict(frames, target, idx, rhs)
        self.events = []      # whole-array operations
        self.loop_counter = 0
        self.n_arrays = 0
        self.loop_ids = {}
        self.loop_ranges = {}
        self.loop_polys = {}
        self.scalar_mode = True
        self.store = {}       # (array, index tuple) -> (value, frames at the write): store-to-load forwarding of element writes
        self.writes = None    # {frames prefix: [(array, index tuple)]} of ALL paths (first pass); None = forwarding disabled
        self.closure_ids = {}
        self.closure_counter = 0

    def read(self, name, idx):
        """value of an element: the value written earlier in the same iteration when no write of an enclosing loop level (any
        iteration, any path) may alias it; otherwise the atom `name[idx]` (= the element's current value)"""
        ent = self.store.get((name, idx))
        cur = tuple(self.frames)
        if ent is not None and self.writes is not None and ent[1] == cur[:len(ent[1])]:
            ok = True
            for d in range(len(ent[1]) + 1, len(cur) + 1):
                for (a2, i2) in self.writes.get(cur[:d], ()):
                    if a2 == name and may_alias(i2, idx, self.loop_ranges):
                        ok = False
            if ok:
                return ent[0]
        return Poly.var(name, idx)

    def record(self, name, idx, rhs):
        cur = tuple(self.frames)
        self.updates.append({"frames": cur, "arr": name, "idx": idx, "rhs": rhs,
                             "cond": tuple(d for (k, d, b, f) in self.ctx.trace if True)})
        for (a2, i2) in list(self.store):
            if a2 == name and i2 != idx and may_alias(i2, idx, self.loop_ranges):
                del self.store[(a2, i2)]
        self.store[(name, idx)] = (rhs, cur)

    def leave_frame(self, frame):
        """a loop is left: values of elements indexed by its variable are out of scope; elements it may have written in other
        iterations are unknown"""
        sym = frame[0]
        cur = tuple(self.frames) + (frame,)
        inner = (self.writes or {}).get(cur, ())
        for (a2, i2) in list(self.store):
            if any(mentions(c, sym) for c in i2) or len(self.store[(a2, i2)][1]) >= len(cur) or \
                    any(a3 == a2 and may_alias(i3, i2, self.loop_ranges) for (a3, i3) in inner):
                del self.store[(a2, i2)]

    # ---- arrays
    def index_of(self, e, env):
        base = unref(self.ev(e["a"], env))
        idx = unref(self.ev(e["b"], env))
        return base, idx

    def ev_index(self, e, env):
        base, idx = self.index_of(e, env)
        if isinstance(base, ArrV):
            i = idx_str(idx)
            i = i if isinstance(i, tuple) else (i,)
            if base.view and base.view[0] == "diag":
                return Sc(self.read(base.view[1], (i[0], i[0])))
            return Sc(self.read(base.name, i))
        if isinstance(base, Tup):
            return base.vs[0] if isinstance(idx, Sc) else self.unsupported("tuple index", e)
        return Interp.ev_index(self, e, env)

    def place(self, e, env):
        if e["k"] == "index":
            base, idx = self.index_of(e, env)
            if isinstance(base, ArrV):
                i = idx_str(idx)
                return (ElemPlace(self, base, i if isinstance(i, tuple) else (i,)), 0)
        return Interp.place(self, e, env)

    def leaf_call(self, name, path, ipath, c, args, e):
        a0 = unref(args[0]) if args else None
        if isinstance(a0, ArrV):
            if name in ("len", "nrows", "ncols"):
                return Sc(Poly.sym("n"))
            if name == "shape":
                return Tup([Sc(Poly.sym("n")), Sc(Poly.sym("n"))])
            if name in ("to_owned", "clone") and a0.view:
                return ArrV(a0.name)           # a copy of the viewed elements: an array of its own
            if name == "clone" and len(args) == 1:
                self.n_arrays += 1
                self.events.append((tuple(self.frames), "new-array", "new%d" % self.n_arrays, "copy:" + a0.name))
                return ArrV("new%d" % self.n_arrays, init=("copy", a0.name))
            if name == "diag":
                v = ArrV("%s.diag" % a0.name)
                v.view = ("diag", a0.name)
                return v
            if name in ("column_mut", "column") and len(args) == 2:
                v = ArrV("%s.col[%s]" % (a0.name, idx_str(args[1])))
                v.view = (a0.name, idx_str(args[1]))
                return v
            if name in ("index_axis", "index_axis_mut") and len(args) == 3:
                ax = unref(args[1])
                axv = unref(ax.f.get("0")) if isinstance(ax, Rec) and "0" in ax.f else None
                k = self.dom.concrete(axv.v) if isinstance(axv, Sc) else None
                if k == 1:
                    v = ArrV("%s.col[%s]" % (a0.name, idx_str(args[2])))
                    v.view = (a0.name, idx_str(args[2]))
                    return v
                self.unsupported("index_axis over axis %r" % (k,), e)
            if name in ("to_owned", "clone", "view", "view_mut", "column", "row"):
                return ArrV("%s.%s" % (a0.name, name)) if name in ("column", "row") else a0
            if name in ("iter", "into_iter") and len(args) == 1 and (a0.view is None or a0.view[0] == "diag"):
                sym = self.closure_sym(e)
                fr = (sym, "0", "n", False)
                self.loop_ranges[sym] = ("0", "n", False, tuple(f[0] for f in self.frames))
                self.loop_polys[sym] = (Poly.const(0), Poly.sym("n"))
                k = Poly.var(sym)
                item = self.read(a0.view[1], (sym, sym)) if a0.view else self.read(a0.name, (sym,))
                return IterSym([fr], Sc(item))
            if name == "swap" and len(args) == 3:
                i, j = idx_str(args[1]), idx_str(args[2])
                i = i if isinstance(i, tuple) else (i,)
                j = j if isinstance(j, tuple) else (j,)
                vi_, vj_ = self.read(a0.name, i), self.read(a0.name, j)
                self.record(a0.name, i, vj_)
                self.record(a0.name, j, vi_)
                return UNIT
            if name in ("column_mut", "column") and len(args) == 2:
                v = ArrV("%s.col[%s]" % (a0.name, idx_str(args[1])))
                v.view = (a0.name, idx_str(args[1]))
                return v
            if name == "assign" and getattr(a0, "view", None) and len(args) == 2 and isinstance(unref(args[1]), ArrV):
                self.events.append((tuple(self.frames), "assign-column", a0.view[0], a0.view[1], unref(args[1]).name))
                return UNIT
            if name in ("fill", "assign", "add_assign", "sub_assign"):
                self.events.append((tuple(self.frames), name, a0.name, repr(unref(args[1])) if len(args) > 1 else ""))
                return UNIT
            self.events.append((tuple(self.frames), name, a0.name, ""))
            return ArrV("%s.%s" % (a0.name, name))
        if name in ("zeros", "eye", "ones") and "ndarray" in (path + ipath):
            self.n_arrays += 1
            self.events.append((tuple(self.frames), "new-array", "new%d" % self.n_arrays, name))
            return ArrV("new%d" % self.n_arrays, init=name)
        if isinstance(a0, Rec) and a0.adt.startswith("std::Range") and name == "collect":
            self.n_arrays += 1
            return ArrV("new%d" % self.n_arrays, init=("iota", unref(a0.f["start"]).v.show(), unref(a0.f["end"]).v.show()))
        if isinstance(a0, Rec) and a0.adt in ("std::Range",) and name in ("map", "flat_map", "for_each", "fold", "sum", "product", "filter_map"):
            lo, hi = unref(a0.f["start"]), unref(a0.f["end"])
            sym = self.closure_sym(e)
            fr = (sym, lo.v.show(), hi.v.show(), "rev" in a0.f)
            self.loop_ranges[sym] = (lo.v.show(), hi.v.show(), "rev" in a0.f, tuple(f[0] for f in self.frames))
            self.loop_polys[sym] = (lo.v, hi.v)
            a0 = IterSym([fr], Sc(Poly.var(sym)))
        if isinstance(a0, IterSym):
            return self.itersym_method(a0, name, args, e)
        if isinstance(a0, Rec) and a0.adt in ("std::Range", "std::RangeInclusive") and name == "rev":
            return Rec(a0.adt, dict(a0.f, rev=BoolV(True)))
        if name == "into_iter" and isinstance(a0, Rec) and a0.adt.startswith("std::Range"):
            return a0
        return Interp.leaf_call(self, name, path, ipath, c, args, e)

    def closure_sym(self, e):
        """bound variable of an iterator pipeline stage: numbered by the syntactic position of the call"""
        k = self.closure_ids.get(id(e))
        if k is None:
            k = 800 + self.closure_counter
            self.closure_counter += 1
        return "w%d" % k

    def in_frames(self, frames, thunk):
        n0 = len(self.frames)
        self.frames.extend(frames)
        try:
            return thunk()
        finally:
            for fr in reversed(self.frames[n0:]):
                self.frames.pop()
                self.leave_frame(fr)

    def itersym_method(self, it, name, args, e):
        if name in ("copied", "cloned", "into_iter", "iter", "by_ref") and len(args) == 1:
            return it
        if name == "rev" and len(args) == 1 and len(it.frames) == 1:
            f = it.frames[0]
            return IterSym([(f[0], f[1], f[2], not f[3])], it.item)
        if name == "map" and len(args) == 2:
            return IterSym(it.frames, self.in_frames(it.frames, lambda: self.call_closure(unref(args[1]), [it.item], e)))
        if name == "flat_map" and len(args) == 2:
            r = unref(self.in_frames(it.frames, lambda: self.call_closure(unref(args[1]), [it.item], e)))
            if isinstance(r, Rec) and r.adt == "std::Range":
                self.unsupported("flat_map to a bare range", e)
            if not isinstance(r, IterSym):
                self.unsupported("flat_map result %r" % (r,), e)
            return IterSym(list(it.frames) + list(r.frames), r.item)
        if name == "for_each" and len(args) == 2:
            self.in_frames(it.frames, lambda: self.call_closure(unref(args[1]), [it.item], e))
            return UNIT
        if name in ("sum", "product") and len(args) == 1:
            v = unref(it.item)
            if not isinstance(v, Sc):
                self.unsupported("%s of non-scalar items" % name, e)
            return Sc(big_op("Σ" if name == "sum" else "Π", it.frames, v.v, self.loop_polys))
        if name == "fold" and len(args) == 3:
            init = unref(args[1])
            index_like = isinstance(init, Sc) and bool(list(init.v.atoms())) and all(a[0] == "v" and not a[2] and (a[1] == "n" or a[1][0] in "vw") for a in init.v.atoms())
            if isinstance(init, Sc) and not index_like:
                acc = Poly.var("$acc")
                v = unref(self.in_frames(it.frames, lambda: self.call_closure(unref(args[2]), [Sc(acc), it.item], e)))
                if isinstance(v, Sc):
                    d = v.v - acc
                    if not d.t:
                        return init
                    if ("v", "$acc", ()) not in d.atoms_deep():
                        return Sc(init.v + big_op("Σ", it.frames, d, self.loop_polys))      # additive accumulation
                    # not additive (selection / running extremum): one symbolic iteration, like a scalar updated in a for loop
                    return Sc(v.v.subst(lambda a: init.v if a == ("v", "$acc", ()) else None))
            v = self.in_frames(it.frames, lambda: self.call_closure(unref(args[2]), [args[1], it.item], e))
            return v
        self.unsupported("iterator method %s" % name, e)

    def call_body(self, body, args, e=None):
        if self.depth > 0 and body.get("path", "").startswith("linalg::") and body.get("name") == "jacobi_eigenvalue":
            return Tup([ArrV("EIGENVALUES"), ArrV("EIGENVECTORS")])      # verified separately (loops|jacobi|*)
        # a call of another verified routine of the module (solve) is kept as a summary: `solve(b)`
        if self.depth > 0 and body.get("path", "").startswith("linalg::") and body.get("name") == "solve" and len(args) == 2 \
                and isinstance(unref(args[1]), ArrV):
            self.n_arrays += 1
            r = ArrV("new%d" % self.n_arrays, init=("solve", unref(args[1]).name))
            self.events.append((tuple(self.frames), "call-solve", unref(args[1]).name, r.name))
            return r
        return Interp.call_body(self, body, args, e)

    def binop(self, op, a, b, c, e):
        ua, ub = unref(a), unref(b)
        if op == "%" and isinstance(ua, Sc) and isinstance(ub, Sc):
            from ..interp import fn_n
            return Sc(fn_n(self.dom, "rem", ua.v, ub.v))
        if isinstance(ua, ArrV) or isinstance(ub, ArrV):
            self.events.append((tuple(self.frames), "binop" + op, repr(ua), repr(ub)))
            return ua if isinstance(ua, ArrV) else ub
        return Interp.binop(self, op, a, b, c, e)

    def ev_assignop(self, e, env):
        # `bw += &zw` on whole arrays
        try:
            tgt = unref(self.ev(e["a"], env))
        except Unsupported:
            tgt = None
        if isinstance(tgt, ArrV):
            rhs = unref(self.ev(e["b"], env))
            self.events.append((tuple(self.frames), "assignop" + e["op"], tgt.name, repr(rhs)))
            return UNIT
        return Interp.ev_assignop(self, e, env)

    # ---- loops
    def ev_for(self, e, env):
        call = e["scrut"]
        rng = unref(self.ev(call["args"][0], env))
        if not (isinstance(rng, Rec) and rng.adt.startswith("std::Range")):
            self.unsupported("for loop over %r" % (rng,), e)
        arm = e["arms"][0]
        loop = arm["body"]
        inner = loop["body"]["stmts"][0]["e"] if loop["body"]["stmts"] else loop["body"]["tail"]
        some_arm = [a for a in inner["arms"] if a["pat"].get("fields") or a["pat"].get("pats")][0]
        pat = some_arm["pat"]["fields"][0]["pat"] if some_arm["pat"]["k"] == "struct" else some_arm["pat"]["pats"][0]
        # loops are numbered by their syntactic (pre-order) position in the body, not by evaluation order
        sym = "v%d" % self.loop_ids.get(id(e), 900 + self.loop_counter)
        self.loop_counter += 1
        lo, hi = unref(rng.f["start"]), unref(rng.f["end"])
        self.loop_ranges[sym] = (lo.v.show(), hi.v.show(), "rev" in rng.f, tuple(f[0] for f in self.frames))
        self.loop_polys[sym] = (lo.v, hi.v)
        fr = (sym, lo.v.show(), hi.v.show(), "rev" in rng.f)
        self.frames.append(fr)
        if not self.bind(pat, Sc(Poly.var(sym)), env):
            self.unsupported("for pattern", e)
        try:
            self.ev(some_arm["body"], env)
        except (BreakEx, ContinueEx):
            pass
        finally:
            self.frames.pop()
            self.leave_frame(fr)
        return UNIT

    def ev_break(self, e, env):
        raise BreakEx()

    def ev_continue(self, e, env):
        raise ContinueEx()

    def compare(self, op, a, b):
        # comparisons of index expressions that differ by a constant are decided; everything else is a free decision
        try:
            diff = a.v - b.v
            c = diff.const_value()
            idx_only = all(at[0] == "v" and not at[2] and (at[1] == "n" or at[1].startswith("v")) for at in list(a.v.atoms()) + list(b.v.atoms()))
        except Exception:
            c, idx_only = None, False
        if c is not None and idx_only:
            return BoolV({"==": c == 0, "!=": c != 0, "<": c < 0, "<=": c <= 0, ">": c > 0, ">=": c >= 0}[op])
        return Interp.compare(self, op, a, b)


def updates_of(F, body, args_fn, max_paths=256, roles=None):
    """evaluate all paths; returns (updates, events, paths) where arrays are renamed by ROLE (what the function returns / stores:
    roles(value) -> {array name: role}); paths = [dict(ctx, value, updates)]"""
    from .. import walk as _walk
    loop_ids = {}
    for node in _walk.walk_body(body):
        if is_for(node) and node["scrut"].get("k") == "call" and (_walk.callee_of(node["scrut"]) or {}).get("name") == "into_iter":
            loop_ids[id(node)] = len(loop_ids)
    closure_ids = {}
    for node in _walk.walk_body(body):
        if node.get("k") == "mcall" and node.get("m") in ("map", "flat_map", "for_each", "fold", "sum", "product", "iter", "into_iter", "filter_map"):
            closure_ids[id(node)] = len(closure_ids)
    paths = []
    writes = [None]

    def thunk(ctx):
        it = LoopInterp(F, ctx)
        it.loop_ids = loop_ids
        it.closure_ids = closure_ids
        it.writes = writes[0]
        v = None
        try:
            v = it.call_body(body, args_fn())
            return v
        finally:
            paths.append({"ctx": ctx, "value": v, "updates": it.updates, "events": it.events, "loops": it.loop_ranges, "polys": it.loop_polys})
    # first pass (no forwarding): the write patterns of every loop level over all paths
    explore(thunk, max_paths=max_paths)
    w = {}
    for p in paths:
        for u in p["updates"]:
            for d in range(1, len(u["frames"]) + 1):
                lst = w.setdefault(u["frames"][:d], [])
                if (u["arr"], u["idx"]) not in lst:
                    lst.append((u["arr"], u["idx"]))
    writes[0] = w
    del paths[:]
    # second pass: element reads are forwarded from earlier writes of the same iteration where no loop level in between may alias
    explore(thunk, max_paths=max_paths)
    all_updates, events = [], []
    inits = {}
    for p in paths:
        rmap = roles(p["value"]) if (roles and p["value"] is not None) else {}
        p["roles"] = rmap

        def ren_poly(q):
            def f(a):
                if a[0] == "v" and a[1] in rmap:
                    return Poly.atom(("v", rmap[a[1]], a[2]))
                return None
            return q.subst(f)
        for u in p["updates"]:
            u["arr"] = rmap.get(u["arr"], u["arr"])
            u["rhs"] = ren_poly(u["rhs"])
        all_updates += p["updates"]
        events += p["events"]
    seen = {}
    for u in all_updates:
        k = (u["frames"], u["arr"], u["idx"], u["rhs"].key())
        seen.setdefault(k, u)
    return list(seen.values()), events, paths


def arr_names(v, out):
    v = unref(v)
    if isinstance(v, ArrV):
        out.append(v)
    elif isinstance(v, Tup):
        for x in v.vs:
            arr_names(x, out)
    elif isinstance(v, Rec):
        for x in v.f.values():
            arr_names(x, out)
    elif hasattr(v, "v") and not isinstance(v, Sc):
        try:
            arr_names(v.v, out)
        except Exception:
            pass
    return out


def A(name, *idx):
    return Poly.var(name, tuple(idx))


def has_update(updates, arr, idx, rhs, frames=None):
    for u in updates:
        if u["arr"] == arr and u["idx"] == tuple(idx) and equal(u["rhs"], rhs):
            if frames is None or [(f[0], f[1], f[2], f[3]) for f in u["frames"]] == frames:
                return True
    return False


def describe(updates, arr=None):
    out = []
    for u in updates:
        if arr is None or u["arr"] == arr:
            out.append("%s%s <- %s  in %s" % (u["arr"], list(u["idx"]), u["rhs"].show(), [f[0] + ":" + f[1] + ".." + f[2] + ("(rev)" if f[3] else "") for f in u["frames"]]))
    return out


def expect(chk, key, rule, F, body, updates, wanted, arrays):
    """wanted: list of (arr, idx, rhs Poly, frames); every wanted update must have been recorded and no other update of
    the listed arrays may exist"""
    missing = []
    for arr, idx, rhs, frames in wanted:
        if not has_update(updates, arr, idx, rhs, frames):
            missing.append("%s%s <- %s in %s" % (arr, list(idx), rhs.show(), [f[0] + ":" + f[1] + ".." + f[2] + ("(rev)" if f[3] else "") for f in frames]))
    extra = []
    for u in updates:
        if u["arr"] in arrays and not any(u["arr"] == w[0] and u["idx"] == tuple(w[1]) and equal(u["rhs"], w[2]) for w in wanted):
            extra.append(describe([u])[0])
    if wanted and len(missing) * 2 > len(wanted):
        # most statements of the recognised scheme are absent: the routine is organised differently (not a local deviation)
        chk.undecide(key, "unsupported: the routine does not follow the recognised scheme (%d of %d statements found)" % (
            len(wanted) - len(missing), len(wanted)), body_loc(F, body))
        return
    chk.ob(key, not missing and not extra, rule, body_loc(F, body),
           found=("missing: %s; " % missing[:3] if missing else "") + ("unexpected: %s" % extra[:3] if extra else "") or
           "%d update statements match" % len(wanted),
           required="the update statements of the textbook scheme (and no others on %s)" % sorted(arrays))


def compose_path(updates, polys):
    """per-path effect summary: for every written element (array, index, enclosing loops that index it) the value it holds after
    the statements of one iteration — sequential statements on one element are composed, additive accumulations over inner loops
    that do not index the element become Σ terms.  Independent of how the statements are grouped in the source."""
    groups = {}
    for u in updates:
        Fr_, arr, idx, rhs = u["frames"], u["arr"], u["idx"], u["rhs"]
        tgt = ("v", arr, idx)
        k = len(Fr_)
        while k > 0 and not any(mentions(c, Fr_[k - 1][0]) for c in idx):
            k -= 1
        acc, outer = Fr_[k:], Fr_[:k]
        key = (arr, idx, outer)
        if acc:
            d = rhs - Poly.atom(tgt)
            if tgt not in d.atoms_deep():
                prev = groups.get(key, Poly.atom(tgt))
                groups[key] = prev + big_op("Σ", acc, d, polys)
                continue
            key = (arr, idx, Fr_)      # loop-carried and not additive: a statement of the inner level (one symbolic iteration)
        prev = groups.get(key)
        if prev is not None:
            rhs = rhs.subst(lambda a: prev if a == tgt else None)
        groups[key] = rhs
    return groups


def composed(paths):
    """{(array, index, outer frames): [distinct composed values over all paths]}"""
    out = {}
    for pp in paths:
        polys = dict(pp.get("polys") or {})
        for key, val in compose_path(pp["updates"], polys).items():
            lst = out.setdefault(key, [])
            if not any(equal(val, x) for x in lst):
                lst.append(val)
    return out


def show_group(key, val):
    arr, idx, outer = key
    return "%s%s = %s  per iteration of %s" % (arr, list(idx), val.show()[:200], [f[0] + ":" + f[1] + ".." + f[2] + ("(rev)" if f[3] else "") for f in outer])


def expect_groups(chk, key, rule, F, body, paths, wanted, arrays):
    """wanted: [(array, index, outer frames, value)] — every wanted element value must be produced (on some path) and no other
    value may be produced for the listed arrays"""
    found = composed(paths)
    missing, extra, n_found = [], [], 0
    for arr, idx, outer, val in wanted:
        vals = found.get((arr, tuple(idx), tuple(outer)), [])
        if any(equal(val, x) for x in vals):
            n_found += 1
        else:
            missing.append(show_group((arr, tuple(idx), tuple(outer)), val))
    for k, vals in found.items():
        if k[0] not in arrays:
            continue
        for v in vals:
            if not any(w[0] == k[0] and tuple(w[1]) == k[1] and tuple(w[2]) == k[2] and equal(w[3], v) for w in wanted):
                extra.append(show_group(k, v))
    # the scheme is recognised when the elements it updates (array, index, enclosing loops) are the ones the routine updates;
    # a different VALUE for such an element is a deviation, other elements altogether are another organisation of the routine
    keys_w = {(w[0], tuple(w[1]), tuple(w[2])) for w in wanted}
    present = sum(1 for k in keys_w if k in found)
    # the same elements updated inside the same loops but over DIFFERENT ranges is a deviation of the recognised scheme, not another scheme
    def shape(k):
        return (k[0], k[1], tuple(f[0] for f in k[2]))
    found_shapes = {}
    for k in found:
        found_shapes.setdefault(shape(k), []).append(k)
    range_bad = []
    for k in keys_w:
        if k not in found and shape(k) in found_shapes:
            other = found_shapes[shape(k)][0]
            range_bad.append("%s%s is updated over %s, the scheme runs over %s" % (
                k[0], list(k[1]), [f[0] + ":" + f[1] + ".." + f[2] + ("(rev)" if f[3] else "") for f in other[2]],
                [f[0] + ":" + f[1] + ".." + f[2] + ("(rev)" if f[3] else "") for f in k[2]]))
    if range_bad:
        chk.ob(key, False, rule, body_loc(F, body), found="loop ranges: %s" % range_bad[:3],
               required="the element updates of the textbook scheme over its index ranges")
        return True
    if wanted and present * 2 < len(keys_w):
        chk.undecide(key, "unsupported: the routine does not follow the recognised scheme (%d of %d element updates found)" % (
            n_found, len(wanted)), body_loc(F, body))
        return False
    chk.ob(key, not missing and not extra, rule, body_loc(F, body),
           found=("missing: %s; " % missing[:3] if missing else "") + ("unexpected: %s" % extra[:3] if extra else "") or
           "%d element updates match" % len(wanted),
           required="the element updates of the textbook scheme (and no others on %s)" % sorted(arrays))
    return True


def sigma(lo, hi, body_fn):
    """Σ_{κ1 in lo..hi} body(κ1) in the canonical form of big_op"""
    return big_op("Σ", [("κ1", "", "", False)], body_fn("κ1"), {"κ1": (lo, hi)})


def pi(lo, hi, body_fn):
    from ..interp import fn_n
    return fn_n(DOMK, "Π", body_fn("κ1"), lo, hi)


def role_map(pairs):
    """pairs: list of (value, role) -> {array name: role}"""
    m = {}
    for v, role in pairs:
        v = unref(v)
        if isinstance(v, ArrV):
            m[v.name] = role
    return m


def lu_roles(v):
    v = unref(v)
    from ..interp import Res
    if isinstance(v, Res) and v.ok:
        v = unref(v.v)
    if isinstance(v, Rec) and v.adt == "LU":
        fl = LU_FIELDS
        return role_map([(v.f.get(fl.get("a", "a")), "A"), (v.f.get(fl.get("p", "p")), "P")])
    return {}


def run_loops(chk, F):
    COUNTER_BASE.clear()
    lu_fields(F)
    fns = {b["path"]: b for b in F.bodies.values() if b["path"].startswith("linalg::")}

    def get(suffix):
        bs = [b for p, b in fns.items() if p.endswith(suffix)]
        return bs[0] if len(bs) == 1 else None
    n = "n"
    # ------------------------------------------------------------------ LU::new
    body = get("LU::<T, F>::new")
    if body is None:
        chk.undecide("loops|lu-new", "missing anchor")
    else:
        try:
            ups, ev, paths = updates_of(F, body, lambda: [ArrV("A")], roles=lu_roles)
            groups = composed(paths)
            # the loop symbols: the elimination update a[j,k] (three enclosing loops, indexed by the two inner ones)
            elim = [k for k in groups if k[0] == "A" and len(k[2]) == 3 and k[1] == (k[2][1][0], k[2][2][0])]
            if not elim:
                chk.undecide("loops|lu-new", "unsupported: no elimination update a[j,k] inside three nested loops recognised", body_loc(F, body))
            else:
                vi, vj, vk = (f[0] for f in elim[0][2])
                f1 = (vi, "0", n, False)
                fj = (vj, "1 + " + vi, n, False)
                fk = (vk, "1 + " + vi, n, False)
                mult = A("A", vj, vi) * A("A", vi, vi).recip()
                wanted = [
                    ("A", (vj, vi), [f1, fj], mult),
                    ("A", (vj, vk), [f1, fj, fk], A("A", vj, vk) - mult * A("A", vi, vk)),
                ]
                # row exchange: a[i, c] over a column loop c inside the pivot loop, taken from row m
                swaps = [(k, v) for k, vals in groups.items() for v in vals
                         if k[0] == "A" and len(k[2]) == 2 and k[2][0][0] == vi and k[1][0] == vi and k[1][1] == k[2][1][0]]
                vm = None
                if swaps:
                    vc = swaps[0][0][2][1][0]
                    src = [a_ for a_ in swaps[0][1].atoms() if a_[0] == "v" and a_[1] == "A"]
                    if len(src) == 1 and src[0][2][1] == vc:
                        vm = src[0][2][0]
                        fc = (vc, "0", n, False)
                        wanted += [("A", (vi, vc), [f1, fc], A("A", vm, vc)), ("A", (vm, vc), [f1, fc], A("A", vi, vc)),
                                   ("P", (vi,), [f1], A("P", vm)), ("P", (vm,), [f1], A("P", vi))]
                # initial permutation: identity (explicit loop or (0..n).collect())
                p_iota = any(any(getattr(a_, "init", None) == ("iota", "0", n) and pp["roles"].get(a_.name) == "P" for a_ in arr_names(pp["value"], []))
                             for pp in paths if pp["value"] is not None)
                inits = [k for k, vals in groups.items() if k[0] == "P" and len(k[2]) == 1 and k[2][0][1:] == ("0", n, False)
                         and k[1] == (k[2][0][0],) and any(equal(v, A(k[2][0][0])) for v in vals)]
                for k in inits:
                    wanted.append(("P", k[1], list(k[2]), A(k[2][0][0])))
                expect_groups(chk, "loops|lu-new", "LU::new is Doolittle elimination with partial pivoting: whole-row exchange with the pivot "
                              "row, l_ji = a_ji / a_ii, a_jk -= l_ji a_ik for j, k > i (element values per iteration, however the statements are grouped)",
                              F, body, paths, wanted, {"A", "P"})
                chk.ob("loops|lu-new|row-exchange", vm is not None, "the pivot row found by the search is exchanged with row i over all columns",
                       body_loc(F, body), found=[show_group(k, v) for k, v in swaps][:2], nontrivial=False)
                chk.ob("loops|lu-new|identity-permutation", bool(p_iota or inits), "the permutation starts as the identity",
                       body_loc(F, body), found="iota" if p_iota else [show_group(k, A(k[2][0][0])) for k in inits][:1], nontrivial=False)
                # pairing per path: row exchange, permutation exchange and the parity counter move together
                bad = []
                counter0 = []
                # paths without an exchange first: they fix the counter's base value (n in the pinned source)
                def _has_x(pp_):
                    return any(u["arr"] == "A" and len(u["frames"]) == 2 and u["idx"][0] != u["frames"][1][0] for u in pp_["updates"])
                for pp in sorted(paths, key=_has_x):
                    v = unref(pp["value"])
                    from ..interp import Res
                    if not (isinstance(v, Res) and v.ok):
                        continue
                    lu = unref(v.v)
                    pc = unref(lu.f.get(lu_fields(F).get("p_count", "p_count")))
                    rowx0 = any(u["arr"] == "A" and len(u["frames"]) == 2 and u["idx"][0] != u["frames"][1][0] for u in pp["updates"])
                    if isinstance(pc, Sc) and not rowx0:
                        counter0.append(pc.v)
                    base = counter0[0] if counter0 else Poly.sym("n")
                    inc = isinstance(pc, Sc) and equal(pc.v, base + 1)
                    same = isinstance(pc, Sc) and equal(pc.v, base)
                    rowx = any(u["arr"] == "A" and len(u["frames"]) == 2 and u["idx"][0] != u["frames"][1][0] for u in pp["updates"])
                    perx = any(u["arr"] == "P" and len(u["frames"]) == 1 and u["frames"][0][0] == vi for u in pp["updates"])
                    if not ((rowx and perx and inc) or (not rowx and not perx and same)):
                        bad.append("row exchange %s, permutation exchange %s, parity counter %s" % (rowx, perx, pc.v.show() if isinstance(pc, Sc) else pc))
                if counter0:
                    COUNTER_BASE["v"] = counter0[0]
                chk.ob("loops|lu-new|pairing", not bad, "on every path the row exchange, the permutation exchange and the parity counter "
                       "(+1 per exchange from its base value) are updated together", body_loc(F, body), found=sorted(set(bad))[:3] or "%d paths consistent" % len(paths))
                chk.count("loop-body update statements checked", len(wanted))
                lu_guard(chk, F, body, paths, vi)
        except Unsupported as ex:
            chk.undecide("loops|lu-new", "unsupported: %s" % ex, body_loc(F, body))
    # ------------------------------------------------------------------ solve
    body = get("LU::<T, F>::solve")
    if body is None:
        chk.undecide("loops|lu-solve", "missing anchor")
    else:
        try:
            ups, ev, paths = updates_of(F, body, lambda: [lu_self(F), ArrV("b")], roles=lambda v: role_map([(v, "X")]))
            groups = composed(paths)
            fw = [k for k in groups if k[0] == "X" and len(k[2]) == 1 and not k[2][0][3] and k[1] == (k[2][0][0],)]
            bw = [k for k in groups if k[0] == "X" and len(k[2]) == 1 and k[2][0][3] and k[1] == (k[2][0][0],)]
            if len(fw) != 1 or len(bw) != 1:
                chk.undecide("loops|lu-solve", "unsupported: no forward (ascending) and backward (descending) pass over the solution recognised",
                             body_loc(F, body))
            else:
                v0, v2 = fw[0][2][0][0], bw[0][2][0][0]
                wanted = [
                    ("X", (v0,), [(v0, "0", n, False)],
                     A("b", "self.p[%s]" % v0) - sigma(Poly.const(0), Poly.var(v0), lambda k: A("self.a", v0, k) * A("X", k))),
                    ("X", (v2,), [(v2, "0", n, True)],
                     (A("X", v2) - sigma(Poly.var(v2) + 1, Poly.sym("n"), lambda k: A("self.a", v2, k) * A("X", k))) * A("self.a", v2, v2).recip()),
                ]
                expect_groups(chk, "loops|lu-solve", "solve is forward substitution with the unit lower factor on the permuted right-hand side "
                              "(x_i = b_p(i) - sum_{k<i} l_ik x_k) followed by back substitution (x_i = (x_i - sum_{k>i} u_ik x_k) / u_ii)",
                              F, body, paths, wanted, {"X"})
                chk.count("loop-body update statements checked", 4)
        except Unsupported as ex:
            chk.undecide("loops|lu-solve", "unsupported: %s" % ex, body_loc(F, body))
    # ------------------------------------------------------------------ inverse
    body = get("LU::<T, F>::inverse")
    if body is None:
        chk.undecide("loops|lu-inverse", "missing anchor")
    else:
        try:
            ups, ev, paths = updates_of(F, body, lambda: [lu_self(F)], roles=lambda v: role_map([(v, "IA")]))
            if inverse_by_solve(chk, F, body, ups, ev, paths):
                raise StopIteration
            groups = composed(paths)
            fw = [k for k in groups if k[0] == "IA" and len(k[2]) == 2 and not k[2][1][3] and k[1] == (k[2][1][0], k[2][0][0])]
            bw = [k for k in groups if k[0] == "IA" and len(k[2]) == 2 and k[2][1][3] and k[1] == (k[2][1][0], k[2][0][0])]
            if len(fw) != 1 or len(bw) != 1:
                chk.undecide("loops|lu-inverse", "unsupported: no column loop with a forward and a backward pass recognised", body_loc(F, body))
            else:
                vc, v1 = fw[0][2][0][0], fw[0][2][1][0]
                v3 = bw[0][2][1][0]
                f0 = (vc, "0", n, False)
                fsum = sigma(Poly.const(0), Poly.var(v1), lambda k: A("self.a", v1, k) * A("IA", k, vc))
                wanted = [
                    ("IA", (v1, vc), [f0, (v1, "0", n, False)], Poly.const(1) - fsum),
                    ("IA", (v1, vc), [f0, (v1, "0", n, False)], -fsum),
                    ("IA", (v3, vc), [f0, (v3, "0", n, True)],
                     (A("IA", v3, vc) - sigma(Poly.var(v3) + 1, Poly.sym("n"), lambda k: A("self.a", v3, k) * A("IA", k, vc))) * A("self.a", v3, v3).recip()),
                ]
                expect_groups(chk, "loops|lu-inverse", "inverse solves A X = I column by column with the same substitution scheme as solve "
                              "(right-hand side: the permuted unit vector)", F, body, paths, wanted, {"IA"})
                # the unit right-hand side is the PERMUTED identity: entry (i, j) starts from one exactly when p[i] == j
                rhs_ok, seen = False, set()
                for pp in paths:
                    g = compose_path(pp["updates"], dict(pp.get("polys") or {}))
                    val = g.get(("IA", (v1, vc), (f0, (v1, "0", n, False))))
                    if val is None:
                        continue
                    conds = {d.replace(" ", ""): b for (k, d, b, f) in pp["ctx"].trace}
                    want_c = "self.p[%s]==%s" % (v1, vc)
                    alt_c = "%s==self.p[%s]" % (vc, v1)
                    c = conds.get(want_c, conds.get(alt_c))
                    one = equal(val, Poly.const(1) - fsum)
                    seen.add((c, one))
                rhs_ok = seen == {(True, True), (False, False)}
                chk.ob("loops|lu-inverse|rhs", rhs_ok, "the right-hand side of column j is e_{i : p[i] = j} (row i of the permuted identity)",
                       body_loc(F, body), found="(p[i] == j decided, entry starts from one): %s" % sorted(seen, key=str), required="one exactly when p[i] == j")
                chk.count("loop-body update statements checked", 6)
        except StopIteration:
            pass
        except Unsupported as ex:
            chk.undecide("loops|lu-inverse", "unsupported: %s" % ex, body_loc(F, body))
    # ------------------------------------------------------------------ determinant
    body = get("::determinant")
    if body is None:
        chk.undecide("loops|lu-determinant", "missing anchor")
    else:
        try:
            ups, ev, paths = updates_of(F, body, lambda: [lu_self(F)])
            from ..interp import fn_n
            det = pi(Poly.const(0), Poly.sym("n"), lambda k: A("self.a", k, k))
            par = fn_n(DOMK, "rem", A("self.p_count") - COUNTER_BASE.get("v", Poly.sym("n")), Poly.const(2))
            ok = len(paths) == 2
            found = []
            for pp in paths:
                v = unref(pp["value"])
                tr = [(d, b) for (k, d, b, f) in pp["ctx"].trace]
                found.append("%s -> %s" % (tr, v.v.show()[:80] if isinstance(v, Sc) else v))
                if not isinstance(v, Sc) or len(tr) != 1:
                    ok = False
                    continue
                key = pp["ctx"].trace[0][0]
                even = None
                if key[0] == "cmp" and key[1] == "==" and key[2] == par.key() and key[3] == Poly.const(0).key():
                    even = tr[0][1]
                elif key[0] == "cmp" and key[1] == "==" and key[2] == par.key() and key[3] == Poly.const(1).key():
                    even = not tr[0][1]
                if even is None or not equal(v.v, det if even else -det):
                    ok = False
            chk.ob("loops|lu-determinant", ok, "the determinant is the product of the pivots, negated exactly when the number of row "
                   "exchanges (p_count - n) is odd", body_loc(F, body), found=found, required="(p_count - n) % 2 == 0 ? det : -det")
            chk.count("loop-body update statements checked", 1)
        except Unsupported as ex:
            chk.undecide("loops|lu-determinant", "unsupported: %s" % ex, body_loc(F, body))
    # ------------------------------------------------------------------ norm
    body = get("linalg::norm")
    if body is not None:
        try:
            ups, ev, paths = updates_of(F, body, lambda: [ArrV("x")])
            vals = [unref(pp["value"]) for pp in paths]
            want = sigma(Poly.const(0), Poly.sym("n"), lambda k: A("x", k) * A("x", k)).pow(E(Fr(1, 2)))
            ok = len(vals) == 1 and isinstance(vals[0], Sc) and equal(vals[0].v, want)
            if len(vals) == 1 and isinstance(vals[0], Sc) and not ok and not any(a[0] == "f" and a[1] == "Σ" for a in vals[0].v.atoms_deep() if isinstance(a, tuple)):
                chk.undecide("loops|norm", "unsupported: norm is not written as a sum over the elements", body_loc(F, body))
            else:
                chk.ob("loops|norm", ok, "norm(x) is the square root of the sum of the squared elements", body_loc(F, body),
                       found=[v.v.show()[:120] if isinstance(v, Sc) else repr(v)[:80] for v in vals], required=want.show())
            chk.count("loop-body update statements checked", 1)
        except Unsupported as ex:
            chk.undecide("loops|norm", "unsupported: %s" % ex, body_loc(F, body))
    # ------------------------------------------------------------------ smallest_ev
    body = get("linalg::smallest_ev")
    if body is not None:
        try:
            ups, ev, paths = updates_of(F, body, lambda: [ArrV("A")])
            vals = [unref(pp["value"]) for pp in paths]
            ok = len(vals) == 1 and isinstance(vals[0], Tup) and len(vals[0].vs) == 2
            found = repr(vals[0])[:160] if vals else ""
            recognised = ok
            if ok:
                lam, vec = unref(vals[0].vs[0]), unref(vals[0].vs[1])
                recognised = isinstance(lam, Sc) and isinstance(vec, ArrV) and vec.name.startswith("EIGENVECTORS.col[") and \
                    any(a[0] == "v" and a[1] == "EIGENVALUES" for a in lam.v.atoms())
                ok = recognised and equal(lam.v, A("EIGENVALUES", "0")) and vec.name == "EIGENVECTORS.col[0]"
                found = "(%s, %s)" % (lam.v.show() if isinstance(lam, Sc) else lam, vec)
            if not recognised:
                chk.undecide("loops|smallest-ev", "unsupported: the result is not of the form (e[i], column j of the eigenvectors): %s" % found,
                             body_loc(F, body))
            else:
                chk.ob("loops|smallest-ev", ok, "smallest_ev returns the first (smallest, the eigenvalues are ascending) eigenvalue together with "
                       "the first eigenvector column", body_loc(F, body), found=found, required="(e[0], vecs.column(0))")
            chk.count("loop-body update statements checked", 1)
        except Unsupported as ex:
            chk.undecide("loops|smallest-ev", "unsupported: %s" % ex, body_loc(F, body))
    # ------------------------------------------------------------------ Jacobi rotations
    body = get("jacobi_eigenvalue")
    if body is None:
        chk.undecide("loops|jacobi", "missing anchor")
    else:
        jacobi(chk, F, body)


COUNTER_BASE = {}   # value of the exchange counter when no rows were exchanged (established by the LU::new rule)
LU_FIELDS = {}    # role -> actual field name of struct LU, by field TYPE (2-d array, 1-d array, usize counter, marker)


def lu_fields(F):
    """the private fields of LU by their types: the factor matrix (2-d array), the row permutation (1-d array of usize), the exchange
    counter (usize); names are the repository's business"""
    if LU_FIELDS.get("_for") is F:
        return LU_FIELDS
    LU_FIELDS.clear()
    LU_FIELDS["_for"] = F
    adt = F.adts.get("LU")
    for f in (adt or {}).get("fields", []):
        ts = F.ty_s(f["t"]) if isinstance(f.get("t"), int) else ""
        if "Dim<[usize; 2]>" in ts:
            LU_FIELDS.setdefault("a", f["name"])
        elif "Dim<[usize; 1]>" in ts:
            LU_FIELDS.setdefault("p", f["name"])
        elif ts == "usize":
            LU_FIELDS.setdefault("p_count", f["name"])
        elif "PhantomData" in ts:
            LU_FIELDS.setdefault("f", f["name"])
    return LU_FIELDS


def lu_self(F=None):
    fl = lu_fields(F) if F is not None else {"a": "a", "p": "p", "p_count": "p_count", "f": "f"}
    if not all(k in fl for k in ("a", "p", "p_count")):
        raise Unsupported("struct LU does not have a 2-d array, a 1-d array and a usize counter")
    r = {fl["a"]: ArrV("self.a"), fl["p"]: ArrV("self.p"), fl["p_count"]: Sc(Poly.var("self.p_count"))}
    if "f" in fl:
        r[fl["f"]] = PHANTOM
    return Rec("LU", r)


def jacobi_roles(v):
    v = unref(v)
    if isinstance(v, Tup) and len(v.vs) == 2:
        return role_map([(v.vs[0], "D"), (v.vs[1], "V")])
    return {}


def jacobi(chk, F, body):
    try:
        ups, ev, paths = updates_of(F, body, lambda: [ArrV("A"), Sc(Poly.var("max_iter"))], max_paths=512, roles=jacobi_roles)
    except Unsupported as ex:
        chk.undecide("loops|jacobi", "unsupported: %s" % ex, body_loc(F, body))
        return
    n = "n"
    # the sweep: updates of D nested in (iteration, p, q) loops identify the loop symbols
    sweep = [u for u in ups if u["arr"] == "D" and len(u["frames"]) == 3]
    if not sweep:
        chk.ob("loops|jacobi|t", False, "the sweep updates the diagonal", body_loc(F, body), found=describe(ups)[:3])
        return
    P, Q = sweep[0]["frames"][1][0], sweep[0]["frames"][2][0]
    qf = sweep[0]["frames"][2]
    chk.ob("loops|jacobi|sweep-range", qf[1] == "1 + " + P and qf[2] == n and sweep[0]["frames"][1][1:] == ("0", n, False),
           "a sweep visits every pair p < q", body_loc(F, body), found=[sweep[0]["frames"][1], qf], nontrivial=False)
    apq = A("A", P, Q)
    in_sweep = [u for u in ups if len(u["frames"]) >= 3 and u["frames"][1][0] == P and u["frames"][2][0] == Q]
    d_updates = [u for u in in_sweep if u["arr"] == "D" and u["idx"] == (P,) and len(u["frames"]) == 3]
    ts = []
    for u in d_updates:
        t = (A("D", P) - u["rhs"]) * apq.recip()
        if not any(equal(t, x) for x in ts):
            ts.append(t)
    theta = (A("D", Q) - A("D", P)) * Fr(1, 2) * apq.recip()
    root = (theta * theta + 1).pow(E(Fr(1, 2)))
    want_ts = [apq * (A("D", Q) - A("D", P)).recip(),
               (apply_fn("abs", theta) + root).recip(), -((apply_fn("abs", theta) + root).recip())]
    ok_t = len(ts) == 3 and all(any(equal(t, w) for w in want_ts) for t in ts)
    chk.ob("loops|jacobi|t", ok_t, "the rotation parameter is t = a_pq/(d_q - d_p) in the small-angle case and "
           "t = sgn(theta)/(|theta| + sqrt(theta^2 + 1)), theta = (d_q - d_p)/(2 a_pq), otherwise", body_loc(F, body),
           found=[t.show()[:120] for t in ts], required=[w.show()[:120] for w in want_ts])
    # the four rotation loops: identified by their ranges
    rot = {}
    for u in in_sweep:
        if len(u["frames"]) == 4 and u["arr"] in ("A", "V"):
            f = u["frames"][3]
            rot.setdefault((u["arr"], f[1], f[2]), f[0])
    spec_loops = [("A", "0", P, lambda j: ((j, P), (j, Q))), ("A", "1 + " + P, Q, lambda j: ((P, j), (j, Q))),
                  ("A", "1 + " + Q, n, lambda j: ((P, j), (Q, j))), ("V", "0", n, lambda j: ((j, P), (j, Q)))]
    problems = []
    n_ok = 0
    for arr, lo, hi, idxf in spec_loops:
        j = rot.get((arr, lo, hi))
        if j is None:
            problems.append("no rotation loop of %s over %s..%s" % (arr, lo, hi))
            continue
        gi, hi_ = idxf(j)
        g, h = A(arr, *gi), A(arr, *hi_)
        for t in ts:
            c = (t * t + 1).pow(E(Fr(-1, 2)))
            s_ = t * c
            tau = s_ * (c + 1).recip()
            wg = g - s_ * (h + g * tau)
            wh = h + s_ * (g - h * tau)
            okg = any(u["arr"] == arr and u["idx"] == gi and equal(u["rhs"], wg) for u in in_sweep)
            okh = any(u["arr"] == arr and u["idx"] == hi_ and equal(u["rhs"], wh) for u in in_sweep)
            if okg and okh:
                n_ok += 1
            else:
                problems.append("%s%s / %s%s over %s..%s" % (arr, list(gi), arr, list(hi_), lo, hi))
    unexpected = [describe([u])[0][:120] for u in in_sweep if len(u["frames"]) == 4 and u["arr"] in ("A", "V")
                  and (u["arr"], u["frames"][3][1], u["frames"][3][2]) not in {(a, l, h) for a, l, h, _ in spec_loops}]
    chk.ob("loops|jacobi|rotations", bool(ts) and not problems and not unexpected,
           "the rotation is applied to the rows above p, between p and q, beyond q and to the eigenvector columns, each as "
           "g' = g - s(h + g tau), h' = h + s(g - h tau) with c = 1/sqrt(t^2+1), s = t c, tau = s/(1+c)", body_loc(F, body),
           found=("not matching: %s" % sorted(set(problems))[:3] if problems else "") + ("unexpected: %s" % unexpected[:2] if unexpected else "") or
           "%d loop/t combinations match" % n_ok, required="4 loops x %d forms of t" % len(ts))
    # diagonal updates, accumulator and annihilated element
    diag_ok = bool(ts)
    accs = sorted({u["arr"] for u in in_sweep if len(u["frames"]) == 3 and u["arr"] not in ("A", "D", "V")})
    for t in ts:
        hh = t * apq
        diag_ok = diag_ok and any(u["arr"] == "D" and u["idx"] == (P,) and equal(u["rhs"], A("D", P) - hh) for u in in_sweep) \
            and any(u["arr"] == "D" and u["idx"] == (Q,) and equal(u["rhs"], A("D", Q) + hh) for u in in_sweep)
        for z in accs:
            diag_ok = diag_ok and any(u["arr"] == z and u["idx"] == (P,) and equal(u["rhs"], A(z, P) - hh) for u in in_sweep) \
                and any(u["arr"] == z and u["idx"] == (Q,) and equal(u["rhs"], A(z, Q) + hh) for u in in_sweep)
    zero_ok = any(u["arr"] == "A" and u["idx"] == (P, Q) and u["rhs"].is_zero_syntactic() for u in in_sweep)
    chk.ob("loops|jacobi|diagonal", diag_ok and zero_ok, "d_p -= t a_pq, d_q += t a_pq (also in the per-sweep accumulator) and a_pq is annihilated",
           body_loc(F, body), found="diagonal/accumulator updates ok: %s (accumulators %s), a_pq <- 0: %s" % (diag_ok, accs, zero_ok))
    # the final ascending sort exchanges eigenvalue and eigenvector column together
    sort_bad = []
    n_sw = 0
    for pp in paths:
        dsw = [(u["idx"], tuple(sorted(a[2] for a in u["rhs"].atoms() if a[0] == "v"))) for u in pp["updates"]
               if u["arr"] == "D" and len(u["frames"]) == 1 and not equal(u["rhs"], A("D", *u["idx"]))]
        vsw = [u for u in pp["updates"] if u["arr"] == "V" and len(u["frames"]) == 2 and not equal(u["rhs"], A("V", *u["idx"]))]
        if bool(dsw) != bool(vsw):
            sort_bad.append("eigenvalue exchange %s without eigenvector exchange %s" % (bool(dsw), bool(vsw)))
        for u in vsw:
            fr = u["frames"][-1]
            if (fr[1], fr[2]) != ("0", n) or u["idx"][0] != fr[0]:
                sort_bad.append("the eigenvector columns are exchanged over rows %s..%s only" % (fr[1], fr[2]))
        if dsw and vsw:
            n_sw += 1
            cols_d = {i[0] for i, _ in dsw}
            cols_v = {u["idx"][1] for u in vsw}
            if cols_d != cols_v:
                sort_bad.append("eigenvalues %s exchanged but eigenvector columns %s" % (sorted(cols_d), sorted(cols_v)))
    # the exchange happens exactly when the minimum found (index m of the search loop) is not already at position k
    import re as _re
    for pp in paths:
        loops_ = pp["loops"]
        dsw_syms = {u["idx"][0] for u in pp["updates"] if u["arr"] == "D" and len(u["frames"]) == 1 and not equal(u["rhs"], A("D", *u["idx"]))}
        for (key, d, b, f) in pp["ctx"].trace:
            if key[0] != "cmp" or key[1] != "==":
                continue
            m_ = _re.match(r"^(\w+) == (\w+)$", d)
            if not m_:
                continue
            x_, y_ = m_.group(1), m_.group(2)
            if x_ not in loops_ or y_ not in loops_:
                continue
            inner, outer = (x_, y_) if y_ in loops_[x_][3] else ((y_, x_) if x_ in loops_[y_][3] else (None, None))
            if inner is None or len(loops_[outer][3]) != 0:
                continue      # not (search index, position) of a top-level selection pass
            if b and {inner, outer} <= dsw_syms:
                sort_bad.append("eigenvalues d[%s], d[%s] exchanged on the path where %s == %s" % (inner, outer, inner, outer))
            if not b and not dsw_syms:
                sort_bad.append("the minimum found at %s != %s is not moved to position %s" % (inner, outer, outer))
            # every position but possibly the last gets its pass
            olo, ohi = loops_[outer][0], loops_[outer][1]
            if olo != "0" or ohi not in ("-1 + n", n):
                sort_bad.append("the selection passes run over positions %s..%s" % (olo, ohi))
            # the search runs over the not yet sorted tail
            lo, hi = loops_[inner][0], loops_[inner][1]
            if lo not in ("1 + " + outer, outer) or hi != n:
                sort_bad.append("the minimum for position %s is searched over %s..%s" % (outer, lo, hi))
    chk.ob("loops|jacobi|sort", not sort_bad and n_sw > 0, "the final sort exchanges an eigenvector column whenever (and only when) it exchanges "
           "the corresponding eigenvalue", body_loc(F, body), found=sorted(set(sort_bad))[:3] or "%d paths with consistent exchanges" % n_sw)
    jacobi_control(chk, F, body, paths, P, Q)
    jacobi_per_path(chk, F, body, paths, P, Q, accs)
    # ascending order: an exchange of d_m (m from the inner search loop) with d_k happens only under d_m < d_k
    inv = {}
    for pp in paths:
        for nm, role in pp["roles"].items():
            inv[role] = nm
    asc_bad, n_asc = [], 0
    for pp in paths:
        dsw = [u for u in pp["updates"] if u["arr"] == "D" and len(u["frames"]) == 1 and not equal(u["rhs"], A("D", *u["idx"]))]
        if len(dsw) != 2:
            continue
        k_sym = dsw[0]["frames"][0][0]
        others = [u["idx"][0] for u in dsw if u["idx"][0] != k_sym]
        if len(others) != 1:
            asc_bad.append("exchange of %s in the pass of %s" % ([u["idx"] for u in dsw], k_sym))
            continue
        m_sym = others[0]
        dn = inv.get("D", "D")
        small, big = Poly.var(dn, (m_sym,)).key(), Poly.var(dn, (k_sym,)).key()
        holds = False
        for (key, d, b, f) in pp["ctx"].trace:
            if key[0] != "cmp":
                continue
            if (key[1] == "<" and key[2] == small and key[3] == big and b) or (key[1] == "<=" and key[2] == big and key[3] == small and not b):
                holds = True
        n_asc += 1
        if not holds:
            asc_bad.append("d[%s] and d[%s] exchanged without d[%s] < d[%s]" % (m_sym, k_sym, m_sym, k_sym))
    chk.ob("loops|jacobi|sort-ascending", not asc_bad and n_asc > 0, "the selection sort moves an eigenvalue in front of d_k only when it is "
           "smaller (real parts compared): ascending order", body_loc(F, body), found=sorted(set(asc_bad))[:3] or "%d exchange paths under d_m < d_k" % n_asc)
    chk.count("loop-body update statements checked", 8 * max(1, len(ts)) + 7)


def array_atoms(p):
    return [a for a in p.atoms() if a[0] == "v" and a[2]]


def all_atoms(p, out=None):
    """array atoms of a form, also below function applications"""
    out = [] if out is None else out
    for a in p.atoms():
        if a[0] == "v" and a[2]:
            out.append(a)
        elif a[0] == "f":
            all_atoms(a[2], out)
        elif a[0] == "u":
            all_atoms(a[1], out)
    return out


def fn_parts(arg, n):
    """inverse of interp.fn_n's encoding: the n argument forms of an n-ary opaque function"""
    parts = [Poly() for _ in range(n)]
    for m, c in arg.t.items():
        which = [a for a, e in m if a[0] == "c" and a[1].startswith("#")]
        if len(which) != 1:
            return None
        k = int(which[0][1][1:]) - 1
        if k >= n:
            return None
        m2 = tuple((a, e) for a, e in m if a != which[0])
        parts[k] = parts[k] + Poly({m2: c})
    return parts


def sigma_ranges(p, out=None):
    """{bound variable: (lo, hi)} of every Σ inside a form, with the atoms of the summands"""
    out = [] if out is None else out
    for a in p.atoms():
        if a[0] == "f" and a[1] == "Σ":
            for nb in (1, 2, 3):
                parts = fn_parts(a[2], 1 + 2 * nb)
                if parts is not None and any(parts[-1].t or parts[-2].t for _ in [0]):
                    rng = {"κ%d" % (i + 1): (parts[1 + 2 * i].show(), parts[2 + 2 * i].show()) for i in range(nb)}
                    out.append((rng, all_atoms(parts[0])))
                    sigma_ranges(parts[0], out)
                    break
        elif a[0] == "f":
            sigma_ranges(a[2], out)
        elif a[0] == "u":
            sigma_ranges(a[1], out)
    return out


def eval_uniform(p, aval, nval=3.0):
    """float value of a form when every array element has the value `aval` (sizes = nval); Σ over a range counts as a positive multiple
    of its summand.  None when the form cannot be evaluated (negative base of a fractional power, unknown function, ...)"""
    import math
    total = 0.0
    for m, c in p.t.items():
        term = float(c)
        for a, e in m:
            if a[0] == "v":
                v = aval if a[2] else nval
            elif a[0] == "c":
                v = nval if a[1] == "n" else None
                if a[1].startswith("#"):
                    v = 1.0
            elif a[0] == "u":
                v = eval_uniform(a[1], aval, nval)
            elif a[0] == "f":
                if a[1] == "Σ":
                    parts = None
                    for nb in (1, 2, 3):
                        parts = fn_parts(a[2], 1 + 2 * nb)
                        if parts is not None:
                            break
                    v = None if parts is None else eval_uniform(parts[0], aval, nval)
                    v = None if v is None else 2.0 * v
                else:
                    x = eval_uniform(a[2], aval, nval)
                    v = None if x is None else {"abs": abs, "re": lambda t: t}.get(a[1], lambda t: None)(x)
            else:
                v = None
            if v is None:
                return None
            ex = float(e[0])
            if e[1] != 0:
                return None
            try:
                if v < 0 and ex != int(ex):
                    return None
                if v == 0 and ex < 0:
                    return None
                term *= v ** ex
            except (OverflowError, ZeroDivisionError, ValueError):
                return None
        total += term
    return total


def is_magnitude(p):
    """the form is a magnitude of the array elements it mentions: zero when they are zero, positive and the same for +a and -a"""
    z, a, b = eval_uniform(p, 0.0), eval_uniform(p, 1.0), eval_uniform(p, -1.0)
    return z is not None and a is not None and b is not None and z == 0.0 and a > 0 and abs(a - b) < 1e-12, (z, a, b)


def jacobi_control(chk, F, body, paths, P, Q):
    """control conditions of the Jacobi sweeps that are necessary for the result: (1) the iteration stops early only on a quantity
    that covers the whole strict upper triangle; (2) a rotation divides by a_pq and is only performed on paths that exclude a_pq = 0;
    (3) an element annihilated WITHOUT a rotation was tested against BOTH diagonal elements it couples"""
    from .common import _poly_from_key_cache as cache
    loc = body_loc(F, body)
    loops = {}
    for pp in paths:
        loops.update(pp["loops"])
    # ---- (1) early exit
    exits = []
    for pp in paths:
        sweep_updates = [u for u in pp["updates"] if len(u["frames"]) >= 3]
        tr = pp["ctx"].trace
        if not sweep_updates and tr and tr[0][0][0] == "pred" and tr[0][2]:
            exits.append(tr[0])
    cover_ok, found = False, "no early exit recognised"
    for (key, d, b, f) in exits[:1]:
        pz = cache.get(key[2])
        ats = all_atoms(pz) if pz is not None else []
        names = {a[1] for a in ats}
        idx = {a[2] for a in ats}
        found = d
        sig = sigma_ranges(pz) if pz is not None else []
        if len(idx) == 1 and names <= {"A"} and sig:
            # written as a sum over an iterator pipeline: the ranges are those of the Σ's bound variables
            (r_, c_), = idx
            rng = sig[0][0]
            lr = rng.get(r_, (None, None)) + (False, (c_,))
            lc = rng.get(c_, (None, None)) + (False, (r_,))
            upper1 = lc[:2] == ("0", "n") and lr[:2] == ("0", c_)
            upper2 = lr[:2] == ("0", "n") and lc[:2] == ("1 + " + r_, "n")
            cover_ok = upper1 or upper2
            found = "%s with %s in %s..%s, %s in %s..%s" % (d[:80], r_, lr[0], lr[1], c_, lc[0], lc[1])
        elif len(idx) == 1 and names <= {"A"}:
            (r_, c_), = idx
            lr, lc = loops.get(r_), loops.get(c_)
            if lr and lc:
                upper1 = lc[:2] == ("0", "n") and lr[:2] == ("0", c_) and c_ in lr[3]           # for j in 0..n, i in 0..j : a[i,j]
                upper2 = lr[:2] == ("0", "n") and lc[:2] == ("1 + " + r_, "n") and r_ in lc[3]    # for i in 0..n, j in i+1..n
                cover_ok = upper1 or upper2
                found = "%s with %s in %s..%s, %s in %s..%s" % (d, r_, lr[0], lr[1], c_, lc[0], lc[1])
    if exits and cover_ok:
        pz = cache.get(exits[0][0][2])
        okm, vals = is_magnitude(pz) if pz is not None else (False, None)
        chk.ob("loops|jacobi|early-exit|norm", okm, "the quantity the sweeps stop on is a magnitude of the off-diagonal elements: zero when they "
               "vanish, positive and independent of their signs otherwise (accumulated from zero, with squares or absolute values)", loc,
               found="value at a = 0, +1, -1: %s" % (vals,), required="0, c, c with c > 0")
    if exits:
        chk.ob("loops|jacobi|early-exit", cover_ok, "the sweeps stop early only on a quantity accumulated over the WHOLE strict upper triangle "
               "of the working matrix (a_ij, i < j)", loc, found=found, required="a[i,j] over j in 0..n, i in 0..j")
    else:
        chk.undecide("loops|jacobi|early-exit", "no early exit of the sweep loop recognised", loc)
    # ---- (2) rotations exclude a_pq = 0
    apq = Poly.var("A", (P, Q))
    abs_apq = apply_fn("abs", apq).key()
    bad2, n_rot = [], 0
    for pp in paths:
        rot = any(u["arr"] == "D" and len(u["frames"]) == 3 for u in pp["updates"])
        if not rot:
            continue
        n_rot += 1
        nonzero = set()   # keys of quantities known to be non-zero on this path
        guarded = False
        for (key, d, b, f) in pp["ctx"].trace:
            if key[0] == "pred" and key[1] == "is_zero" and not b:
                nonzero.add(key[2])
                if key[2] in (apq.key(), abs_apq):
                    guarded = True
            if key[0] == "cmp" and key[1] == "==" and not b and {key[2], key[3]} & {apq.key(), abs_apq} and Poly.const(0).key() in (key[2], key[3]):
                guarded = True
            if key[0] == "cmp" and key[1] in ("<=", "<") and key[3] == abs_apq and b and (key[2] in nonzero or key[1] == "<"):
                guarded = True      # 0 != T <= |a_pq|  (T is a norm: non-negative)
            if key[0] == "cmp" and key[1] in ("<=", "<") and key[2] == abs_apq and not b and key[3] in nonzero:
                guarded = True      # not(|a_pq| < T)
        if not guarded:
            bad2.append(path_descr(pp["ctx"])[:160])
    chk.ob("loops|jacobi|rotation-guard", not bad2 and n_rot > 0, "a rotation (which divides by a_pq) is only performed on paths that exclude "
           "a_pq = 0 (|a_pq| at least a non-zero threshold)", loc, found=sorted(set(bad2))[:2] or "%d rotation paths guarded" % n_rot)
    # ---- (3) annihilation without rotation tests both coupled diagonal elements
    dn = None
    for pp in paths:
        for nm, role in pp["roles"].items():
            if role == "D":
                dn = nm
    bad3, n_ann, unknown = [], 0, 0
    untested_paths = []
    for pp in paths:
        rot = any(u["arr"] == "D" and len(u["frames"]) == 3 for u in pp["updates"])
        ann = any(u["arr"] == "A" and len(u["frames"]) == 3 and u["idx"] == (P, Q) and u["rhs"].is_zero_syntactic() for u in pp["updates"])
        if rot or not ann or dn is None:
            continue
        n_ann += 1
        tested = set()
        for (key, d, b, f) in pp["ctx"].trace:
            if key[0] == "cmp" and key[1] == "==" and b:
                for x_, y_ in ((key[2], key[3]), (key[3], key[2])):
                    px, py = cache.get(x_), cache.get(y_)
                    if px is None or py is None:
                        continue
                    for who in (P, Q):
                        ad = apply_fn("abs", Poly.var(dn, (who,)))
                        if py.key() == ad.key():
                            g = px - ad
                            ga = all_atoms(g)
                            if ga and all(a[1] == "A" and a[2] == (P, Q) for a in ga):
                                tested.add(who)
                            elif ga and all(a[1] == "A" for a in ga):
                                bad3.append("negligibility is tested on %s, the element dropped is a[%s,%s]" % (
                                    sorted({"a[%s]" % ",".join(a[2]) for a in ga}), P, Q))
                                tested.add(who)
        if not tested:
            unknown += 1
            untested_paths.append(path_descr(pp["ctx"])[:140])
        elif tested != {P, Q}:
            bad3.append("a_pq set to zero after testing only d[%s]: %s" % (sorted(tested)[0], path_descr(pp["ctx"])[:120]))
    if n_ann and 0 < unknown < n_ann:
        # some paths test both diagonal elements, others drop the element with no test at all
        bad3 += ["a_pq set to zero with no negligibility test on the path: %s" % d_ for d_ in untested_paths[:2]]
    if n_ann and unknown == n_ann:
        chk.undecide("loops|jacobi|annihilation", "the negligibility test before a_pq <- 0 (without rotation) is not of the recognised form", loc)
    else:
        chk.ob("loops|jacobi|annihilation", not bad3, "an off-diagonal element is dropped without a rotation only when it is negligible against "
               "BOTH diagonal elements it couples (g + |d_p| == |d_p| and g + |d_q| == |d_q|)", loc,
               found=sorted(set(bad3))[:2] or "%d annihilation paths test both" % n_ann, nontrivial=n_ann > 0)
    chk.count("loop-body update statements checked", 3)


def inverse_by_solve(chk, F, body, ups, events, paths):
    """alternative scheme: column j of the inverse is solve(e_j) (solve itself is verified by loops|lu-solve).  Returns True when the
    routine is of this form (and records the obligations), False to fall back to the explicit substitution scheme."""
    calls = [e for e in events if e[1] == "call-solve"]
    assigns = [e for e in events if e[1] == "assign-column"]
    if not calls or not assigns:
        return False
    inv = {}
    for pp in paths:
        for nm, role in pp["roles"].items():
            inv[nm] = role
    ok, found = True, []
    for (frames, _, tgt, col, src) in assigns:
        call = [c for c in calls if c[3] == src and c[0] == frames]
        if inv.get(tgt, tgt) != "IA" or len(frames) != 1 or frames[0][1:] != ("0", "n", False) or col != frames[0][0] or len(call) != 1:
            ok = False
            found.append("column %s of %s <- %s in %s" % (col, inv.get(tgt, tgt), src, [f[0] for f in frames]))
            continue
        unit = call[0][2]
        uu = [u for u in ups if u["arr"] == unit]
        is_unit = len(uu) == 1 and uu[0]["idx"] == (col,) and uu[0]["rhs"].const_value() == 1 and uu[0]["frames"] == frames
        zero_init = any(e[1] == "new-array" and e[2] == unit and e[3] == "zeros" and e[0] == frames for e in events)
        found.append("column %s <- solve(%s), %s = e_%s: %s, fresh zero vector per column: %s" % (col, unit, unit, col, is_unit, zero_init))
        ok = ok and is_unit and zero_init
    other = [u for u in ups if u["arr"] == "IA"]
    chk.ob("loops|lu-inverse", ok and not other, "inverse is assembled column by column as solve(e_j) (the unit vector is a fresh zero vector "
           "with a one at j; solve is verified separately)", body_loc(F, body), found=found[:3] + [describe(other)[:2]] if other else found[:3],
           required="ia[:, j] = solve(e_j) for j in 0..n")
    chk.count("loop-body update statements checked", 6)
    return True


def nonzero_facts(trace):
    """keys of quantities a path has excluded from being zero: is_zero(X) false, X == 0 false, 0 < X / X <= 0 false (X an absolute value)"""
    zero = Poly.const(0).key()
    out = set()
    for (key, d, b, f) in trace:
        if key[0] == "pred" and key[1] == "is_zero" and not b:
            out.add(key[2])
        elif key[0] == "cmp" and key[1] == "==" and not b and zero in (key[2], key[3]):
            out.add(key[2] if key[3] == zero else key[3])
        elif key[0] == "cmp" and key[1] == "<=" and not b and key[3] == zero:
            out.add(key[2])          # not(X <= 0)
        elif key[0] == "cmp" and key[1] == "<" and b and key[2] == zero:
            out.add(key[3])          # 0 < X
    return out


def lu_guard(chk, F, body, paths, vi):
    """singular-pivot guard, decided on the interpreted paths of LU::new: (present) some path returns Err; (dominates) every path that
    divides by the pivot a[i,i] has excluded that the tested magnitude M is zero; (max) M = |a[m,i]| with m from a search over the
    remaining rows i..n, and the pivot that is divided by IS that element (m = i, or rows m and i were exchanged)"""
    from ..interp import Res
    from .common import _poly_from_key_cache as cache
    loc = body_loc(F, body)
    errs = [pp for pp in paths if isinstance(unref(pp["value"]), Res) and not unref(pp["value"]).ok]
    chk.ob("lu|guard|present", bool(errs), "LU::new reports a zero pivot column as an error", loc, found="%d error path(s)" % len(errs),
           nontrivial=False)
    pivot = Poly.var("A", (vi, vi))
    bad_dom, bad_max, n_div, unknown = [], [], 0, 0
    for pp in paths:
        divides = any(u["arr"] == "A" and len(u["frames"]) >= 2 and has_neg_power(u["rhs"], ("v", "A", (vi, vi))) for u in pp["updates"])
        if not divides:
            continue
        n_div += 1
        nz = nonzero_facts(pp["ctx"].trace)
        tested = []
        for k in nz:
            pk = cache.get(k)
            if pk is None:
                continue
            ats = all_atoms(pk)
            if ats and all(a[1] in ("A",) or a[1] in pp["roles"] and pp["roles"][a[1]] == "A" for a in ats):
                tested.append((pk, ats))
        if not tested:
            bad_dom.append(path_descr(pp["ctx"])[:140])
            continue
        # the tested magnitude is |a[m, i]| with m searched over i..n, and the divisor is that element
        ok_max = False
        for pk, ats in tested:
            idxs = {a[2] for a in ats}
            if len(idxs) != 1:
                continue
            (m_, c_), = idxs
            if c_ != vi:
                bad_max.append("the tested element is a[%s,%s], not an element of the pivot column %s" % (m_, c_, vi))
                continue
            okm, vals = is_magnitude(pk)
            if not okm:
                bad_max.append("the tested quantity %s is not a magnitude of a[%s,%s] (values at a = 0, +1, -1: %s): a negative pivot "
                               "candidate would be taken for zero" % (pk.show()[:60], m_, c_, vals))
                continue
            if m_ == vi:
                ok_max = True
                continue
            rng = pp["loops"].get(m_)
            if rng is None or rng[0] != vi or rng[1] != "n":
                bad_max.append("the pivot search runs over %s in %s..%s" % (m_, rng[0] if rng else "?", rng[1] if rng else "?"))
                continue
            same = any(key[0] == "cmp" and key[1] == "==" and b and {key[2], key[3]} == {Poly.var(m_).key(), Poly.var(vi).key()}
                       for (key, d, b, f) in pp["ctx"].trace)
            swapped = any(u["arr"] == "A" and u["idx"][0] == vi and len(u["frames"]) == 2 and equal(u["rhs"], Poly.var("A", (m_, u["idx"][1])))
                          for u in pp["updates"])
            if same or swapped:
                ok_max = True
            else:
                bad_max.append("the tested element a[%s,%s] is not the pivot that is divided by (no row exchange, %s != %s possible)" % (m_, vi, m_, vi))
        if not ok_max and not bad_max:
            unknown += 1
    if n_div == 0:
        chk.undecide("lu|guard|dominates", "unsupported: no division by the pivot recognised in LU::new", loc)
        return
    chk.ob("lu|guard|dominates", not bad_dom, "every path of LU::new that divides by the pivot a[i,i] has excluded a zero pivot magnitude "
           "(singular matrices are reported, never divided by)", loc, found=sorted(set(bad_dom))[:2] or "%d dividing paths guarded" % n_div)
    if unknown and not bad_max:
        chk.undecide("lu|guard|max", "unsupported: the guarded quantity is not of the recognised form |a[m,i]|", loc)
    else:
        chk.ob("lu|guard|max", not bad_max, "the guarded quantity is |a[m,i]| for the row m found by the search over the remaining rows i..n, "
               "and that element is the pivot divided by (m = i or rows exchanged)", loc, found=sorted(set(bad_max))[:2] or "search over %s..n" % vi)


def has_neg_power(p, atom):
    for m, c in p.t.items():
        for a, e in m:
            if a == atom and (e[0] < 0 or e[1] != 0):
                return True
            if a[0] == "u" and has_neg_power(a[1], atom):
                return True
            if a[0] == "f" and has_neg_power(a[2], atom):
                return True
    return False


def jacobi_per_path(chk, F, body, paths, P, Q, accs):
    """per rotation path: a_pq is annihilated on THAT path; the sign of t follows the sign of theta; per sweep: the accumulator is added to
    the backup copy of the diagonal, the diagonal is restored from it and the accumulator is reset to zero"""
    from .common import _poly_from_key_cache as cache
    loc = body_loc(F, body)
    apq = A("A", P, Q)
    theta = (A("D", Q) - A("D", P)) * Fr(1, 2) * apq.recip()
    root = (theta * theta + 1).pow(E(Fr(1, 2)))
    mag = (apply_fn("abs", theta) + root).recip()
    bad_zero, bad_sign, n_rot, n_signed = [], [], 0, 0
    bad_small, n_small = [], [0]
    inv = {}
    for pp in paths:
        for nm, role in pp["roles"].items():
            inv[nm] = role

    def ren(p):
        return p.subst(lambda a: Poly.atom(("v", inv[a[1]], a[2])) if a[0] == "v" and a[1] in inv else None)
    for pp in paths:
        dup = [u for u in pp["updates"] if u["arr"] == "D" and u["idx"] == (P,) and len(u["frames"]) == 3]
        if not dup:
            continue
        n_rot += 1
        if not any(u["arr"] == "A" and u["idx"] == (P, Q) and len(u["frames"]) == 3 and u["rhs"].is_zero_syntactic() for u in pp["updates"]):
            bad_zero.append(path_descr(pp["ctx"])[:120])
        t = (A("D", P) - dup[0]["rhs"]) * apq.recip()
        # the small-angle form t = a_pq / (d_q - d_p) only where |h| + g == |h| was decided; the general form elsewhere
        habs = apply_fn("abs", A("D", Q) - A("D", P))
        for (key, d, b, f) in pp["ctx"].trace:
            if key[0] == "cmp" and key[1] == "==":
                l_, r_ = cache.get(key[2]), cache.get(key[3])
                if l_ is None or r_ is None:
                    continue
                l_, r_ = ren(l_), ren(r_)
                for big, small in ((l_, r_), (r_, l_)):
                    if equal(small, habs) and not equal(big, habs) and all(a[1] == "A" for a in all_atoms(big - habs)):
                        n_small[0] += 1
                        small_form = apq * (A("D", Q) - A("D", P)).recip()
                        is_small = equal(t, small_form)
                        if b != is_small:
                            bad_small.append("|h| + g == |h| decided %s but t = %s" % (b, t.show()[:80]))
        for (key, d, b, f) in pp["ctx"].trace:
            if key[0] == "pred" and key[1] in ("is_negative", "is_positive", "is_sign_negative", "is_sign_positive"):
                pk = cache.get(key[2])
                if pk is None or not equal(ren(pk), theta):
                    continue
                neg = b if key[1] in ("is_negative", "is_sign_negative") else (not b)
                n_signed += 1
                if not equal(t, -mag if neg else mag):
                    bad_sign.append("theta %s: t = %s" % ("negative" if neg else "non-negative", t.show()[:100]))
    if n_rot:
        chk.ob("loops|jacobi|annihilated-per-path", not bad_zero, "every rotation path sets the rotated element a_pq to zero", loc,
               found=sorted(set(bad_zero))[:2] or "%d rotation paths" % n_rot)
        if n_small[0]:
            chk.ob("loops|jacobi|t-small-angle", not bad_small, "the small-angle form t = a_pq / (d_q - d_p) is used exactly on the paths where "
                   "a_pq is negligible against |d_q - d_p|", loc, found=sorted(set(bad_small))[:2] or "%d decided paths" % n_small[0])
        if n_signed:
            chk.ob("loops|jacobi|t-sign", not bad_sign, "t = sgn(theta) / (|theta| + sqrt(theta^2 + 1)): negative exactly when theta is negative", loc,
                   found=sorted(set(bad_sign))[:2] or "%d paths with a decided sign" % n_signed)
    # ---- sweep epilogue (whole-array operations recorded as events)
    evs = []
    for pp in paths:
        for e in pp["events"]:
            if e not in evs:
                evs.append(e)
    copies = {e[2]: e[3][5:] for e in evs if e[1] == "new-array" and str(e[3]).startswith("copy:")}
    dname = [nm for nm, role in inv.items() if role == "D"]
    fills = [e for e in evs if e[1] == "fill" and len(e[0]) == 1]
    adds = [e for e in evs if e[1] == "assignop+=" and len(e[0]) == 1]
    assigns = [e for e in evs if e[1] == "assign" and len(e[0]) == 1]
    if not (fills and adds and assigns and dname and accs):
        chk.undecide("loops|jacobi|sweep-epilogue", "unsupported: the end of a sweep is not the recognised add / restore / reset of whole arrays", loc)
        return
    z = accs[0]
    ok_add = any(copies.get(e[2]) == dname[0] and e[3] == "Arr(%s)" % z for e in adds)
    ok_assign = any(e[2] == dname[0] and copies.get(e[3][4:-1]) == dname[0] for e in assigns)
    ok_fill = any(e[2] == z and e[3] == "Sc(0)" for e in fills)
    chk.ob("loops|jacobi|sweep-epilogue", ok_add and ok_assign and ok_fill, "at the end of a sweep the accumulated corrections are added to the "
           "backup copy of the diagonal, the diagonal is restored from it, and the accumulator is reset to ZERO", loc,
           found="add: %s, restore: %s, reset: %s" % ([e[1:] for e in adds][:2], [e[1:] for e in assigns][:2], [e[1:] for e in fills][:2]),
           required="backup += accumulator; d.assign(backup); accumulator.fill(0)")
