"""Domain A: exact canonical forms.

A Poly is a finite map  monomial -> Fraction,  a monomial is a sorted tuple of (atom, exponent),
an exponent is a pair (a, b) of Fractions standing for  a + b*n  (n = the symbolic power exponent).

Atoms (hashable tuples):
  ("v", name, idx)      operand part / parameter; idx = tuple of index symbols (may be empty)
  ("c", name)           symbolic constant (EPS, n, PI, ...)
  ("f", fname, poly)    opaque elementary function applied to a Poly
  ("u", poly)           named sub-term: stands for the non-monomial Poly it carries (assumed > 0)

Equality is decided by `is_zero(p - q)`: syntactic after eliminating named sub-terms (multiply by the
lowest power, expand non-negative integer powers by definition, compare classes of fractional
exponents separately).  No solver, fixed terminating rewriting, exact rational arithmetic.
"""
from fractions import Fraction as Fr
import itertools

ZERO_E = (Fr(0), Fr(0))
ONE_E = (Fr(1), Fr(0))


def E(a, b=0):
    return (Fr(a), Fr(b))


def e_add(x, y):
    return (x[0] + y[0], x[1] + y[1])


def e_scale(x, k):
    return (x[0] * k, x[1] * k)


def e_str(e):
    a, b = e
    if b == 0:
        return str(a)
    s = "" if a == 0 else str(a)
    t = ("%s*n" % b) if b not in (1, -1) else ("n" if b == 1 else "-n")
    if s and not t.startswith("-"):
        return s + "+" + t
    return s + t


_key_cache = {}


def atom_key(a):
    k = _key_cache.get(a)
    if k is None:
        if a[0] == "f":
            k = ("f", a[1], a[2].key())
        elif a[0] == "u":
            k = ("u", a[1].key())
        else:
            k = a
        k = repr(k)
        _key_cache[a] = k
    return k


class Poly:
    __slots__ = ("t", "_key", "_hash")

    def __init__(self, terms=None):
        # terms: dict mono -> Fraction  (mono: tuple of (atom, exp) sorted by atom_key)
        self.t = {}
        if terms:
            for m, c in terms.items():
                if c != 0:
                    self.t[m] = c
        self._key = None
        self._hash = None

    # ---- constructors
    @staticmethod
    def const(c):
        c = Fr(c)
        return Poly({(): c}) if c != 0 else Poly()

    @staticmethod
    def atom(a, e=ONE_E):
        if e == ZERO_E:
            return Poly.const(1)
        return Poly({((a, e),): Fr(1)})

    @staticmethod
    def var(name, idx=()):
        return Poly.atom(("v", name, tuple(idx)))

    @staticmethod
    def sym(name):
        return Poly.atom(("c", name))

    # ---- identity
    def key(self):
        if self._key is None:
            items = []
            for m, c in self.t.items():
                items.append((tuple((atom_key(a), e) for a, e in m), c))
            items.sort()
            self._key = tuple(items)
        return self._key

    def __hash__(self):
        if self._hash is None:
            self._hash = hash(self.key())
        return self._hash

    def __eq__(self, other):
        return isinstance(other, Poly) and self.key() == other.key()

    def is_zero_syntactic(self):
        return not self.t

    def is_const(self):
        return all(m == () for m in self.t)

    def const_value(self):
        if not self.t:
            return Fr(0)
        if self.is_const():
            return self.t[()]
        return None

    def is_monomial(self):
        return len(self.t) == 1

    def atoms(self):
        s = set()
        for m in self.t:
            for a, _ in m:
                s.add(a)
        return s

    def atoms_deep(self):
        s = set()
        for a in self.atoms():
            s.add(a)
            if a[0] == "f":
                s |= a[2].atoms_deep()
            elif a[0] == "u":
                s |= a[1].atoms_deep()
        return s

    # ---- arithmetic
    def __add__(self, o):
        o = _lift(o)
        d = dict(self.t)
        for m, c in o.t.items():
            v = d.get(m, 0) + c
            if v == 0:
                d.pop(m, None)
            else:
                d[m] = v
        return Poly(d)

    __radd__ = __add__

    def __neg__(self):
        return Poly({m: -c for m, c in self.t.items()})

    def __sub__(self, o):
        return self + (-_lift(o))

    def __rsub__(self, o):
        return _lift(o) - self

    def __mul__(self, o):
        o = _lift(o)
        d = {}
        for m1, c1 in self.t.items():
            for m2, c2 in o.t.items():
                m = mono_mul(m1, m2)
                v = d.get(m, 0) + c1 * c2
                if v == 0:
                    d.pop(m, None)
                else:
                    d[m] = v
        return Poly(d)

    __rmul__ = __mul__

    def scale(self, c):
        c = Fr(c)
        return Poly({m: v * c for m, v in self.t.items()})

    def pow(self, e):
        """self ** e, e an exponent pair or a number."""
        if not isinstance(e, tuple):
            e = E(e)
        if e == ZERO_E:
            return Poly.const(1)
        if e == ONE_E:
            return self
        a, b = e
        if b == 0 and a.denominator == 1 and a > 0 and (len(self.t) != 1):
            r = Poly.const(1)
            for _ in range(int(a)):
                r = r * self
            return r
        if len(self.t) == 1:
            (m, c), = self.t.items()
            if b == 0 and a.denominator == 1:
                if c == 0:
                    raise ZeroDivisionError("0 ** negative")
                cc = c ** int(a)
                return Poly({tuple((at, e_scale_exp(ex, e)) for at, ex in m): cc})
            if c == 1:
                # (x^k)^e with a non-integer / symbolic e: for an EVEN integer k the base is |x|^k, so the result is |x|^(k e)
                # ((x^2)^(3/2) is |x|^3, not x^3); odd or fractional k already require x >= 0
                parts = []
                for at, ex in m:
                    if ex[1] == 0 and ex[0].denominator == 1 and int(ex[0]) % 2 == 0 and ex[0] != 0 and not _nonneg_atom(at):
                        (am, _c), = apply_fn("abs", Poly.atom(at)).t.items()
                        at = am[0][0]
                    parts.append((at, e_mul(ex, e)))
                return Poly({_norm_mono(tuple(parts)): Fr(1)})
            if m == ():
                # constant to a symbolic / fractional power: opaque
                if c > 0:
                    r = _rational_root(c, e)
                    if r is not None:
                        return Poly.const(r)
                return Poly.atom(("u", self), e)
            if c < 0:
                # negative coefficient under a fractional / symbolic power: keep (c * mono) as one named sub-term
                # (splitting would pick the wrong branch: (-x)^(1/2) is not (-1)^(1/2) * x^(1/2))
                return Poly.atom(("u", self), e)
            # c * mono with c > 0, c != 1 and non-integer exponent: split  c^e * mono^e
            cpart = Poly.const(c).pow(e)
            mpart = Poly({m: Fr(1)}).pow(e)
            return cpart * mpart
        if not self.t:
            if b == 0 and a > 0:
                return Poly()
            raise ZeroDivisionError("0 ** non-positive")
        # non-monomial base with negative / fractional / symbolic exponent: named sub-term
        return Poly.atom(("u", self), e)

    def recip(self):
        return self.pow(E(-1))

    def subst(self, f):
        """Replace atoms: f(atom) -> Poly or None (keep). Applied recursively into f/u atoms."""
        out = Poly()
        for m, c in self.t.items():
            term = Poly.const(c)
            for a, e in m:
                r = f(a)
                if r is None:
                    if a[0] == "f":
                        inner = a[2].subst(f)
                        r = apply_fn(a[1], inner) if inner != a[2] else Poly.atom(a)
                    elif a[0] == "u":
                        inner = a[1].subst(f)
                        r = inner if inner != a[1] else Poly.atom(a)
                    else:
                        r = Poly.atom(a)
                term = term * r.pow(e)
            out = out + term
        return out

    def rename_idx(self, mp):
        def f(a):
            if a[0] == "v" and a[2]:
                new = tuple(mp.get(i, i) for i in a[2])
                if new != a[2]:
                    return Poly.atom(("v", a[1], new))
            return None
        return self.subst(f)

    def __repr__(self):
        return self.show()

    def show(self):
        if not self.t:
            return "0"
        parts = []
        for m, c in sorted(self.t.items(), key=lambda kv: tuple((atom_key(a), e) for a, e in kv[0])):
            ms = "*".join(
                (atom_str(a) if e == ONE_E else "%s^(%s)" % (atom_str(a), e_str(e))) for a, e in m
            )
            if not ms:
                parts.append(str(c))
            elif c == 1:
                parts.append(ms)
            elif c == -1:
                parts.append("-" + ms)
            else:
                parts.append("%s*%s" % (c, ms))
        s = " + ".join(parts)
        return s.replace("+ -", "- ")


def atom_str(a):
    if a[0] == "v":
        return a[1] + ("[%s]" % ",".join(a[2]) if a[2] else "")
    if a[0] == "c":
        return a[1]
    if a[0] == "f":
        return "%s(%s)" % (a[1], a[2].show())
    if a[0] == "u":
        return "(%s)" % a[1].show()
    return repr(a)


def e_mul(ex, e):
    """product of two exponent pairs; at most one may have an n-part"""
    if ex[1] != 0 and e[1] != 0:
        raise Unsupported("exponent quadratic in n")
    return (ex[0] * e[0], ex[0] * e[1] + ex[1] * e[0])


def e_scale_exp(ex, e):
    return e_mul(ex, e)


def _rational_root(c, e):
    a, b = e
    if b != 0:
        return None
    # c ** (p/q)
    p, q = a.numerator, a.denominator

    def iroot(n, q):
        if n < 0:
            return None
        r = round(n ** (1.0 / q))
        for k in (r - 1, r, r + 1):
            if k >= 0 and k ** q == n:
                return k
        return None

    rn = iroot(c.numerator, q)
    rd = iroot(c.denominator, q)
    if rn is None or rd is None:
        return None
    base = Fr(rn, rd)
    if base == 0 and p < 0:
        return None
    return base ** p


def _norm_mono(m):
    d = {}
    for a, e in m:
        if a in d:
            d[a] = e_add(d[a], e)
        else:
            d[a] = e
    return tuple(sorted(((a, e) for a, e in d.items() if e != ZERO_E), key=lambda x: atom_key(x[0])))


def mono_mul(m1, m2):
    if not m1:
        return m2
    if not m2:
        return m1
    return _norm_mono(m1 + m2)


def _lift(x):
    if isinstance(x, Poly):
        return x
    return Poly.const(x)


class Unsupported(Exception):
    pass


# ------------------------------------------------------------------ elementary functions
ODD = {"sin", "tan", "asin", "atan", "sinh", "tanh", "asinh", "atanh", "sph_j1", "bessel_j1", "signum"}
EVEN = {"cos", "cosh", "abs", "sph_j0", "sph_j2", "bessel_j0", "bessel_j2"}
AT_ZERO = {"sin": 0, "tan": 0, "asin": 0, "atan": 0, "sinh": 0, "tanh": 0, "asinh": 0, "atanh": 0,
           "cos": 1, "cosh": 1, "exp": 1, "exp2": 1, "exp_m1": 0, "ln_1p": 0, "abs": 0}
AT_ONE = {"ln": 0, "log2": 0, "log10": 0}


def leading_negative(p):
    if not p.t:
        return False
    items = sorted(p.t.items(), key=lambda kv: tuple((atom_key(a), e) for a, e in kv[0]))
    # use the last (highest) monomial as the leading one
    return items[-1][1] < 0


def _nonneg_atom(at):
    """atoms that cannot be negative: absolute values, exponentials, cosh, even powers kept as named sub-terms"""
    if at[0] == "f" and at[1] in ("abs", "exp", "cosh", "sqrt"):
        return True
    if at[0] == "c" and at[1] in ("EPS", "PI", "E", "n") :
        return at[1] != "n"
    return False


def apply_fn(name, p):
    """canonical application of an opaque elementary function"""
    if not p.t and name in AT_ZERO:
        return Poly.const(AT_ZERO[name])
    cv = p.const_value()
    if cv == 1 and name in AT_ONE:
        return Poly.const(AT_ONE[name])
    if name in ODD and leading_negative(p):
        return -Poly.atom(("f", name, -p))
    if name in EVEN and leading_negative(p):
        return Poly.atom(("f", name, -p))
    return Poly.atom(("f", name, p))


# derivative table: name -> function(arg Poly) -> Poly  (f'(arg))
def _d_table():
    one = Poly.const(1)
    T = {
        "exp": lambda x: apply_fn("exp", x),
        "exp_m1": lambda x: apply_fn("exp", x),
        "exp2": lambda x: apply_fn("ln", Poly.const(2)) * apply_fn("exp2", x),
        "ln": lambda x: x.recip(),
        "ln_1p": lambda x: (x + 1).recip(),
        "log2": lambda x: x.recip() * apply_fn("ln", Poly.const(2)).recip(),
        "log10": lambda x: x.recip() * apply_fn("ln", Poly.const(10)).recip(),
        "sin": lambda x: apply_fn("cos", x),
        "cos": lambda x: -apply_fn("sin", x),
        "sinh": lambda x: apply_fn("cosh", x),
        "cosh": lambda x: apply_fn("sinh", x),
        "asin": lambda x: (one - x * x).pow(E(Fr(-1, 2))),
        "acos": lambda x: -((one - x * x).pow(E(Fr(-1, 2)))),
        "atan": lambda x: (one + x * x).recip(),
        "asinh": lambda x: (one + x * x).pow(E(Fr(-1, 2))),
        "acosh": lambda x: (x * x - one).pow(E(Fr(-1, 2))),
        "atanh": lambda x: (one - x * x).recip(),
        "tan": lambda x: apply_fn("cos", x).pow(E(-2)),
        "tanh": lambda x: apply_fn("cosh", x).pow(E(-2)),
        "abs": lambda x: apply_fn("signum", x),
    }
    return T


D_TABLE = _d_table()


def diff(p, dvar):
    """Formal derivative.  dvar(atom) -> Poly (derivative of a v/c atom; 0 for constants)."""
    out = Poly()
    for m, c in p.t.items():
        for i, (a, e) in enumerate(m):
            da = d_atom(a, dvar)
            if da.is_zero_syntactic():
                continue
            rest = m[:i] + m[i + 1:]
            # d(a^e) = e * a^(e-1) * da
            coef = Poly.const(e[0])
            if e[1] != 0:
                coef = coef + Poly.sym("n").scale(e[1])
            term = Poly({rest: c}) * coef * Poly.atom(a, e_add(e, E(-1))) * da
            out = out + term
    return out


def d_atom(a, dvar):
    if a[0] in ("v", "c"):
        r = dvar(a)
        return r if r is not None else Poly()
    if a[0] == "u":
        return diff(a[1], dvar)
    if a[0] == "f":
        name, arg = a[1], a[2]
        darg = diff(arg, dvar)
        if darg.is_zero_syntactic():
            return Poly()
        if name == "log":
            raise Unsupported("log with symbolic base as atom")
        if name not in D_TABLE:
            raise Unsupported("no derivative rule for %s" % name)
        return D_TABLE[name](arg) * darg
    raise Unsupported("atom %r" % (a,))


# ------------------------------------------------------------------ zero test
PYTHAG = True


def is_zero(p, depth=0):
    """True iff p is identically zero as a formal expression (named sub-terms eliminated)."""
    if not p.t:
        return True
    if depth > 12:
        raise Unsupported("u-elimination depth")
    us = [a for a in p.atoms() if a[0] == "u"]
    if not us:
        if PYTHAG:
            q = _pythag(p)
            if q is not None:
                return is_zero(q, depth + 1)
        return False
    # eliminate the 'largest' named sub-term first
    U = sorted(us, key=atom_key)[-1]
    classes = {}
    for m, c in p.t.items():
        e = ZERO_E
        for a, ex in m:
            if a == U:
                e = ex
        frac = (e[0] - (e[0].numerator // e[0].denominator), e[1])
        classes.setdefault(frac, []).append((m, c, e))
    for frac, items in classes.items():
        lo = min(e[0] for _, _, e in items)
        acc = Poly()
        for m, c, e in items:
            k = e[0] - lo  # non-negative integer
            assert k.denominator == 1 and k >= 0
            rest = tuple((a, ex) for a, ex in m if a != U)
            acc = acc + Poly({rest: c}) * U[1].pow(E(int(k)))
        if not is_zero(acc, depth + 1):
            return False
    return True


def _pythag(p):
    """rewrite cos(x)^2 -> 1 - sin(x)^2 and cosh(x)^2 -> 1 + sinh(x)^2 for even powers >= 2; returns a
    new Poly or None when nothing applies."""
    changed = False
    out = Poly()
    for m, c in p.t.items():
        term = Poly({(): c})
        for a, e in m:
            if a[0] == "f" and a[1] in ("cos", "cosh") and e[1] == 0 and e[0].denominator == 1 and e[0] >= 2:
                k = int(e[0])
                s = apply_fn("sin" if a[1] == "cos" else "sinh", a[2])
                sq = (Poly.const(1) - s * s) if a[1] == "cos" else (Poly.const(1) + s * s)
                term = term * sq.pow(E(k // 2)) * Poly.atom(a, E(k % 2))
                changed = True
            else:
                term = term * Poly.atom(a, e)
        out = out + term
    return out if changed else None


def equal(p, q):
    return is_zero(p - q)


# ------------------------------------------------------------------ numeric cross-check of the rewriter
import math as _math
import hashlib as _hashlib


def _atom_value(a, salt, lo=0.35, hi=0.85):
    h = _hashlib.sha256((atom_key(a) + "|" + str(salt)).encode()).digest()
    u = int.from_bytes(h[:8], "big") / float(1 << 64)
    return lo + (hi - lo) * u


_FN = {
    "sin": _math.sin, "cos": _math.cos, "tan": _math.tan, "asin": _math.asin, "acos": _math.acos, "atan": _math.atan,
    "sinh": _math.sinh, "cosh": _math.cosh, "tanh": _math.tanh, "asinh": _math.asinh, "acosh": _math.acosh, "atanh": _math.atanh,
    "exp": _math.exp, "exp2": lambda x: 2.0 ** x, "exp_m1": _math.expm1, "ln": _math.log, "log2": _math.log2, "log10": _math.log10,
    "ln_1p": _math.log1p, "abs": abs, "signum": lambda x: (x > 0) - (x < 0),
}


def eval_float(p, salt, shift=0.0):
    """numeric value of a Poly at a pseudo-random point determined by `salt` (atoms -> values in (0.35, 0.85) + shift);
    raises ValueError / OverflowError / ZeroDivisionError outside a function's domain"""
    total = 0.0
    for m, c in p.t.items():
        term = float(c)
        for a, e in m:
            if a[0] in ("v", "c"):
                if a == ("c", "n"):
                    v = 2.0 + _atom_value(a, salt) * 3.0
                else:
                    v = _atom_value(a, salt) + shift
            elif a[0] == "u":
                v = eval_float(a[1], salt, shift)
            elif a[0] == "f":
                arg = eval_float(a[2], salt, shift)
                name = a[1]
                if name in _FN:
                    v = _FN[name](arg)
                else:
                    # opaque function (table lookups, lane operations, ...): a fixed smooth pseudo-random function of its argument
                    hh = _atom_value(("c", "fn:" + name), 0, 0.5, 1.5)
                    v = _math.sin(hh * arg + hh) + 1.7
            else:
                raise ValueError("atom kind")
            ex = float(e[0])
            if e[1] != 0:
                ex += float(e[1]) * (2.0 + _atom_value(("c", "n"), salt) * 3.0)
            if ex != 1.0:
                if v < 0 and ex != int(ex):
                    raise ValueError("negative base")
                v = v ** ex
            term *= v
        total += term
    return total


def numerically_equal(p, q, points=3):
    """True / False / None (no usable point): compares two forms at pseudo-random points (identity testing of the extracted
    formulas — used only to cross-check the exact rewriter, never to decide an obligation on its own)"""
    used = 0
    for salt in range(12):
        if used >= points:
            break
        for shift in (0.0, 1.0):
            try:
                a = eval_float(p, salt, shift)
                b = eval_float(q, salt, shift)
            except (ValueError, OverflowError, ZeroDivisionError):
                continue
            if _math.isnan(a) or _math.isnan(b) or _math.isinf(a) or _math.isinf(b):
                continue
            used += 1
            scale = max(1.0, abs(a), abs(b))
            if abs(a - b) > 1e-7 * scale:
                return False
            break
    if used == 0:
        return None
    return True
