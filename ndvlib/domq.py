"""Domain Q: point evaluation of an extracted real formula in 60-digit decimal arithmetic.

Used only to compare the repository's rational / asymptotic approximants (their coefficient tables taken from the facts, evaluated by
the interpreter's own arithmetic) with reference values of the function they approximate on a grid — a check of the FORMULA the
analysis extracted, not an execution of repository code."""
from decimal import Decimal as D, getcontext
from fractions import Fraction as Fr

getcontext().prec = 60
PI = D("3.14159265358979323846264338327950288419716939937510582097494459230781640628620899")
CONSTS = {"PI": PI, "FRAC_PI_2": PI / 2, "FRAC_PI_3": PI / 3, "FRAC_PI_4": PI / 4, "FRAC_PI_6": PI / 6, "FRAC_PI_8": PI / 8,
          "FRAC_1_PI": 1 / PI, "FRAC_2_PI": 2 / PI, "TAU": 2 * PI, "SQRT_2": D(2).sqrt(), "FRAC_1_SQRT_2": 1 / D(2).sqrt(),
          "FRAC_2_SQRT_PI": 2 / PI.sqrt(), "E": D(1).exp(), "LN_2": D(2).ln(), "LN_10": D(10).ln()}


def to_d(c):
    if isinstance(c, D):
        return c
    if isinstance(c, Fr):
        return D(c.numerator) / D(c.denominator)
    return D(str(c)) if not isinstance(c, int) else D(c)


def _sincos(x):
    # range reduction to [-pi, pi], then Taylor series
    k = (x / (2 * PI)).to_integral_value()
    y = x - k * 2 * PI
    s, c = D(0), D(0)
    term = D(1)
    n = 0
    while abs(term) > D(10) ** -65 or n < 4:
        if n % 2 == 0:
            c += term if (n // 2) % 2 == 0 else -term
        else:
            s += term if (n // 2) % 2 == 0 else -term
        n += 1
        term = term * y / n
        if n > 400:
            break
    return s, c


class DomQ:
    name = "Q"

    def const(self, c):
        return to_d(c)

    def named(self, name):
        if name in CONSTS:
            return CONSTS[name]
        if name == "EPS":
            return D(2) ** -52
        raise ValueError("named constant %s has no value in the point domain" % name)

    def add(self, a, b):
        return a + b

    def sub(self, a, b):
        return a - b

    def neg(self, a):
        return -a

    def mul(self, a, b):
        return a * b

    def recip(self, a):
        return 1 / a

    def div(self, a, b):
        return a / b

    def rem(self, a, b):
        raise ValueError("rem")

    def powi(self, a, n):
        k = int(n)
        if k != n:
            raise ValueError("non-integer power")
        return a ** k

    def powf(self, a, n):
        if n == int(n):
            return a ** int(n)
        return (to_d(n) * a.ln()).exp()

    def fn(self, name, a):
        if name == "abs":
            return abs(a)
        if name == "recip":
            return 1 / a
        if name == "sqrt":
            return a.sqrt()
        if name == "sin":
            return _sincos(a)[0]
        if name == "cos":
            return _sincos(a)[1]
        if name == "signum":
            return D(1) if a >= 0 else D(-1)
        if name == "re":
            return a
        if name == "exp":
            return a.exp()
        if name == "ln":
            return a.ln()
        raise ValueError("function %s in the point domain" % name)

    def fn2(self, name, a, b):
        raise ValueError(name)

    def key(self, a):
        return ("q", str(a))

    def show(self, a):
        return "%.20g" % float(a)

    def concrete(self, a):
        return Fr(a) if a == a.to_integral_value() else None

    def oracle(self, key, descr, ctx):
        def val(k):
            if isinstance(k, tuple) and len(k) == 2 and k[0] == "q":
                return D(k[1])
            return None
        if key[0] == "pred":
            v = val(key[2])
            if v is None:
                return None
            return {"is_zero": v == 0, "is_positive": v > 0, "is_negative": v < 0, "is_one": v == 1,
                    "is_sign_positive": v >= 0, "is_sign_negative": v < 0}.get(key[1])
        if key[0] == "cmp":
            a, b = val(key[2]), val(key[3])
            if a is None or b is None:
                return None
            return {"==": a == b, "<": a < b, "<=": a <= b}[key[1]]
        return None


def bessel_ref(n, x):
    """J_n(x) from the Maclaurin series in exact rational arithmetic (terms until below 1e-70), as a 60-digit decimal"""
    x = Fr(x)
    h = x / 2
    term = h ** n
    for k in range(1, n + 1):
        term /= k
    total = Fr(0)
    k = 0
    while True:
        total += term
        k += 1
        term = -term * h * h / (k * (k + n))
        if abs(term) < Fr(1, 10 ** 70) and k > abs(x):
            break
        if k > 2000:
            break
    return to_d(total)
