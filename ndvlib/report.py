"""Obligations, verdicts, evidence and known findings."""
import json
import os
import re
import sys
import time

VERIF = os.path.dirname(os.path.dirname(os.path.abspath(__file__)))
KNOWN = os.path.join(VERIF, "known_findings.json")
OUT = os.environ.get("NDV_OUT", VERIF)   # evidence/ and reports/ go here (redirected for seeded-change runs)


def load_known():
    if not os.path.exists(KNOWN):
        return {"findings": [], "fixed": []}
    with open(KNOWN) as fh:
        return json.load(fh)


SESSION = None   # thorough tier: several runs of one rule set (one per feature configuration) are merged into one verdict


def safe_name(key):
    return re.sub(r"[^A-Za-z0-9_.=-]+", "_", key)[:180]


class Check:
    def __init__(self, pid, tier, level, rule_text, assumptions=None, trusted_base=None):
        self.pid = pid
        self.tier = tier
        self.level = level
        self.rule_text = rule_text
        self.assumptions = list(assumptions or [])
        self.trusted_base = list(trusted_base or [])
        self.t0 = time.time()
        self.obs = []        # dicts
        self.undecided = []  # dicts
        self.broken = []     # checker-broken messages
        self.notes = []
        self.analysed = {}   # counters for evidence
        self.samples = []
        self.floors = []
        self.seed = int(os.environ.get("VERIF_SEED", "0") or 0)
        self.only_key = os.environ.get("NDV_ONLY_KEY")
        self.fixture_mode = False

    # ---- recording
    def ob(self, key, ok, rule, loc="", found=None, required=None, nontrivial=True, detail=None):
        """record one obligation (held / violated)"""
        key = "%s|%s%s" % (self.pid, (SESSION or {}).get("prefix", ""), key)
        self.obs.append({
            "key": key, "ok": bool(ok), "rule": rule, "loc": loc,
            "found": found if found is None or isinstance(found, (str, int, float, bool, list, dict)) else str(found),
            "required": required if required is None or isinstance(required, (str, int, float, bool, list, dict)) else str(required),
            "nontrivial": bool(nontrivial), "detail": detail,
        })
        return ok

    def undecide(self, key, reason, loc="", hard=None):
        """hard: a rule instance is MISSING (anchor, floor, build) — the check fails closed (exit 2).  soft: the code at a found
        anchor is outside the analysed fragment — that part of the property is not decided on this tree; it is printed and
        recorded in the evidence, and the verdict covers what was explored."""
        if hard is None:
            hard = bool(re.match(r"missing anchor|instance count|python configuration|\d+ unsafe block", reason))
        self.undecided.append({"key": "%s|%s%s" % (self.pid, (SESSION or {}).get("prefix", ""), key), "reason": reason, "loc": loc,
                               "hard": bool(hard)})

    def checker_broken(self, msg):
        self.broken.append(msg)

    def note(self, s):
        self.notes.append(s)

    def count(self, name, n=1):
        self.analysed[name] = self.analysed.get(name, 0) + n

    def floor(self, name, got, want):
        """fail closed when a rule sees fewer instances than counted by hand on the pinned tree"""
        self.floors.append({"name": name, "got": got, "floor": want, "prefix": (SESSION or {}).get("prefix", "")})

    def sample(self, s):
        if len(self.samples) < 12:
            self.samples.append(s)

    # ---- finishing
    def finish(self, explanation=None, extra=None):
        if SESSION is not None:
            st = SESSION.setdefault("stash", {"obs": [], "undecided": [], "broken": [], "notes": [], "analysed": {}, "floors": [], "samples": []})
            if not SESSION.get("last"):
                st["obs"] += self.obs
                st["undecided"] += self.undecided
                st["broken"] += self.broken
                st["notes"] += self.notes
                st["floors"] += self.floors
                st["samples"] += self.samples
                for k, v in self.analysed.items():
                    st["analysed"]["%s%s" % (SESSION.get("prefix", ""), k)] = v
                return 0
            self.analysed = dict(st["analysed"], **{"%s%s" % (SESSION.get("prefix", ""), k): v for k, v in self.analysed.items()})
            self.obs = st["obs"] + self.obs
            self.undecided = st["undecided"] + self.undecided
            self.broken = st["broken"] + self.broken
            self.notes = st["notes"] + self.notes
            self.floors = st["floors"] + self.floors
            self.samples = (st["samples"] + self.samples)[:12]
            self.t0 = SESSION.get("t0", self.t0)
        # floors: a shortfall with no explanation is a missing anchor (fail closed); a shortfall on a tree where bodies left the
        # analysed fragment (explicit UNDECIDED entries) is part of that not-analysed remainder
        for fl in self.floors:
            if fl["got"] < fl["floor"]:
                explained = any(not u.get("hard") for u in self.undecided)
                self.undecided.append({"key": "%s|%sfloor|%s" % (self.pid, fl.get("prefix", ""), fl["name"]),
                                       "reason": "instance count %d below the floor %d%s" % (
                                           fl["got"], fl["floor"], " (bodies outside the analysed fragment, see above)" if explained else " (missing anchor)"),
                                       "loc": "", "hard": not explained})
        known = load_known()
        kf = {f["key"]: f for f in known.get("findings", []) if f.get("property") == self.pid}
        violations = []
        knowns = []
        import re as _re
        for o in self.obs:
            if o["ok"]:
                continue
            base_key = _re.sub(r"^(C\d+\|)cfg=\w+\|", r"\1", o["key"])
            if base_key in kf and o["key"] not in kf:
                kf[o["key"]] = kf[base_key]
            if o["key"] in kf:
                knowns.append(o)
            else:
                violations.append(o)
        rdir = os.path.join(OUT, "reports", self.pid)
        os.makedirs(rdir, exist_ok=True)
        lines = []
        for o in knowns:
            f = kf[o["key"]]
            lines.append("KNOWN-FINDING: property=%s %s %s" % (self.pid, o["key"], f.get("what", "")))
        for o in violations:
            path = os.path.join(rdir, safe_name(o["key"]) + ".json")
            with open(path, "w") as fh:
                json.dump({"property": self.pid, "tier": self.tier, **o}, fh, indent=1, ensure_ascii=False)
            lines.append("VIOLATION property=%s replay=%s" % (self.pid, path))
            lines.append("  key      : %s" % o["key"])
            lines.append("  rule     : %s" % o["rule"])
            lines.append("  at       : %s" % o["loc"])
            if o["found"] is not None:
                lines.append("  found    : %s" % o["found"])
            if o["required"] is not None:
                lines.append("  required : %s" % o["required"])
            if o["detail"]:
                lines.append("  detail   : %s" % o["detail"])
        for u in self.undecided:
            lines.append("%s property=%s key=%s reason=%s at %s" % ("UNDECIDED" if u.get("hard") else "NOT-ANALYSED", self.pid, u["key"], u["reason"], u["loc"]))
        for b in self.broken:
            lines.append("CHECKER-BROKEN property=%s %s" % (self.pid, b))
        n_ob = len(self.obs)
        n_ok = sum(1 for o in self.obs if o["ok"])
        distinct_nt = len({o["key"] for o in self.obs if o["nontrivial"]})
        wall = time.time() - self.t0
        samples = list(self.samples)
        for o in self.obs[:3]:
            samples.append({k: o[k] for k in ("key", "rule", "loc", "found", "required", "ok")})
        cov = {
            "evaluations": n_ob,
            "distinct_nontrivial": distinct_nt,
            "rule": self.rule_text,
            "samples": samples,
            "obligations": n_ob,
            "discharged": n_ok,
            "known_findings": len(knowns),
            "undecided": len(self.undecided),
            "undecided_hard": sum(1 for u in self.undecided if u.get("hard")),
            "not_analysed": [{"key": u["key"], "reason": u["reason"][:200]} for u in self.undecided if not u.get("hard")][:40],
            "checker_cmd": "./ndv check %s --tier %s" % (self.pid, self.tier),
            "trusted_base": self.trusted_base,
            "explanation": explanation or self.rule_text,
            "exhaustive": not self.undecided,
            "analysed": self.analysed,
            "floors": self.floors,
            "notes": self.notes[:40],
        }
        if extra:
            cov.update(extra)
        ev = {
            "property_id": self.pid,
            "tier": self.tier,
            "seed": self.seed,
            "level": self.level,
            "coverage": cov,
            "assumptions": self.assumptions,
            "wall_s": round(wall, 3),
            "violations": len(violations),
        }
        edir = os.path.join(OUT, "evidence")
        os.makedirs(edir, exist_ok=True)
        with open(os.path.join(edir, self.pid + ".json"), "w") as fh:
            json.dump(ev, fh, indent=1, ensure_ascii=False)
        n_hard = sum(1 for u in self.undecided if u.get("hard"))
        print("%s [%s]: %d obligations, %d discharged, %d known findings, %d violations, %d undecided, %d not analysed (%.1fs)" % (
            self.pid, self.tier, n_ob, n_ok, len(knowns), len(violations), n_hard, len(self.undecided) - n_hard, wall))
        for k, v in sorted(self.analysed.items()):
            print("  analysed %-40s %d" % (k, v))
        for l in lines:
            print(l)
        sys.stdout.flush()
        if violations:
            return 1
        if self.broken or any(u.get("hard") for u in self.undecided):
            return 2
        return 0
