"""Specification side: truncated Taylor algebras by formal differentiation.

Every number type is declared by its grading (Appendix A.1 of DESIGN.md): which derivative operator
each part stands for.  A part of a result is *defined* as that operator applied to the real
expression, with  D_d(a.re) = a.<part d>,  D_d(a.<S>) = a.<S+d>  and the Leibniz / power / chain rules.
One generator serves all eight types (that is the static content of C04)."""
from fractions import Fraction as Fr

from .poly import Poly, E, diff, Unsupported
from .interp import Rec, Opt, Mat, Sc, PHANTOM

# direction = (family, index symbol or None)
# part = (field name, tuple of directions, index layout of the stored matrix or None for scalars,
#         shape for Derivative-typed parts)
GRADINGS = {
    "Dual": {
        "order": 1,
        "parts": [("re", ()), ("eps", (("d", None),))],
        "vec": False,
    },
    "Dual2": {
        "order": 2,
        "parts": [("re", ()), ("v1", (("d", None),)), ("v2", (("d", None), ("d", None)))],
        "vec": False,
    },
    "Dual3": {
        "order": 3,
        "parts": [("re", ()), ("v1", (("d", None),)), ("v2", (("d", None),) * 2), ("v3", (("d", None),) * 3)],
        "vec": False,
    },
    "HyperDual": {
        "order": 2,
        "parts": [("re", ()), ("eps1", (("1", None),)), ("eps2", (("2", None),)),
                  ("eps1eps2", (("1", None), ("2", None)))],
        "vec": False,
    },
    "HyperHyperDual": {
        "order": 3,
        "parts": [("re", ()), ("eps1", (("1", None),)), ("eps2", (("2", None),)), ("eps3", (("3", None),)),
                  ("eps1eps2", (("1", None), ("2", None))), ("eps1eps3", (("1", None), ("3", None))),
                  ("eps2eps3", (("2", None), ("3", None))),
                  ("eps1eps2eps3", (("1", None), ("2", None), ("3", None)))],
        "vec": False,
    },
    "DualVec": {
        "order": 1,
        "parts": [("re", ()), ("eps", (("e", "$r"),))],
        "shapes": {"eps": ("D", "1")},
        "vec": True,
    },
    "Dual2Vec": {
        "order": 2,
        # v1 is stored as a 1xD row: its element index is the column symbol
        "parts": [("re", ()), ("v1", (("e", "$c"),)), ("v2", (("e", "$r"), ("e", "$c")))],
        "shapes": {"v1": ("1", "D"), "v2": ("D", "D")},
        "vec": True,
    },
    "HyperDualVec": {
        "order": 2,
        "parts": [("re", ()), ("eps1", (("1", "$r"),)), ("eps2", (("2", "$c"),)),
                  ("eps1eps2", (("1", "$r"), ("2", "$c")))],
        "shapes": {"eps1": ("M", "1"), "eps2": ("1", "N"), "eps1eps2": ("M", "N")},
        "vec": True,
    },
}
TYPES = list(GRADINGS)
ORDER = {k: v["order"] for k, v in GRADINGS.items()}


def check_grading_against_adts(F):
    """fail closed: the exported ADTs must have exactly these fields in this order"""
    problems = []
    for name, g in GRADINGS.items():
        adt = F.adts.get(name)
        if adt is None:
            problems.append("ADT %s not found" % name)
            continue
        fields = [f["name"] for f in adt["fields"]]
        want = [p[0] for p in g["parts"]] + ["f"]
        if fields != want:
            problems.append("ADT %s has fields %s, grading expects %s" % (name, fields, want))
        if g["vec"]:
            for f in adt["fields"]:
                if f["name"] in g["shapes"]:
                    t = F.ty(f["t"])
                    if F.adt_name(f["t"]) != "Derivative":
                        problems.append("%s.%s is not a Derivative" % (name, f["name"]))
                        continue
                    dims = tuple(dim_name(F, a) for a in t["a"][2:4])
                    if dims != g["shapes"][f["name"]]:
                        problems.append("%s.%s has shape %s, grading expects %s" % (name, f["name"], dims, g["shapes"][f["name"]]))
    return problems


def dim_name(F, ti):
    if isinstance(ti, dict):
        return ti.get("const", "?")
    t = F.ty(ti)
    if t["k"] == "param":
        return t["n"]
    s = t.get("s", "")
    if "Const<1>" in s or s.endswith("U1"):
        return "1"
    return s


def canon_dirs(tyname, dirs):
    """canonical order of a direction multiset for part lookup"""
    fams = [d[0] for d in dirs]
    if tyname in ("Dual2Vec",):
        return tuple(dirs)  # ordered: (row, col)
    return tuple(sorted(dirs, key=lambda d: d[0]))


def part_atom(tyname, opname, dirs):
    """Poly for operand `opname`'s part with the given derivative directions (with actual index symbols)"""
    g = GRADINGS[tyname]
    dirs = canon_dirs(tyname, dirs)
    for field, pd in g["parts"]:
        if len(pd) != len(dirs):
            continue
        if all(a[0] == b[0] for a, b in zip(pd, dirs)):
            idx = tuple(d[1] for d in dirs if d[1] is not None)
            return Poly.var("%s.%s" % (opname, field), idx)
    return None


class Spec:
    """formal-differentiation oracle for one number type"""

    def __init__(self, tyname, absent=None):
        self.ty = tyname
        self.g = GRADINGS[tyname]
        # absent: set of "op.field" names that are absent (== 0)
        self.absent = absent or set()

    def operand(self, opname, presence=None):
        """interpreter value of a fully symbolic operand; presence: dict field -> bool for vector types"""
        f = {}
        for field, pd in self.g["parts"]:
            if not pd:
                f[field] = Sc(Poly.var("%s.re" % opname))
                continue
            idx = tuple(d[1] for d in pd if d[1] is not None)
            p = Poly.var("%s.%s" % (opname, field), idx)
            if self.g["vec"]:
                shape = self.g["shapes"][field]
                present = True if presence is None else presence.get(field, True)
                f[field] = Rec("Derivative", {"0": Opt(True, Mat(p, shape)) if present else Opt(False), "1": PHANTOM})
            else:
                f[field] = Sc(p)
        f["f"] = PHANTOM
        return Rec(self.ty, f)

    def dvar(self, d):
        """derivation rule for direction d on atoms"""
        ty = self.ty

        def rule(a):
            if a[0] != "v":
                return None
            name = a[1]
            if "." not in name:
                # chain-rule function symbols F0..F3 are handled by the caller
                return None
            op, field = name.split(".", 1)
            # which directions does this part already carry?
            for fld, pd in self.g["parts"]:
                if fld == field:
                    # rebuild the actual directions from the atom's indices
                    it = iter(a[2])
                    cur = tuple((x[0], next(it) if x[1] is not None else None) for x in pd)
                    new = cur + (d,)
                    p = part_atom(ty, op, new)
                    if p is None:
                        raise Unsupported("part %s%r beyond the truncation of %s" % (name, new, ty))
                    return p
            return None

        return rule

    def derive(self, base, dirs, extra_rule=None):
        """apply D_{dirs[0]}, D_{dirs[1]}, ... to the Poly `base`"""
        p = base
        for d in dirs:
            r = self.dvar(d)
            if extra_rule is not None:
                er = extra_rule(d)

                def both(a, r=r, er=er):
                    x = er(a)
                    if x is not None:
                        return x
                    return r(a)
                p = diff(p, both)
            else:
                p = diff(p, r)
        return self.drop_absent(p)

    def drop_absent(self, p):
        if not self.absent:
            return p

        def f(a):
            if a[0] == "v" and a[1] in self.absent:
                return Poly()
            return None
        return p.subst(f)

    def parts(self):
        return self.g["parts"]

    # ---- specifications of the operations
    def lift_rule(self, nfun=4, opname="self"):
        """derivation rule for the chain-rule function symbols:  D_d(F_k) = F_{k+1} * a.<d>"""
        ty = self.ty

        def er(d):
            def rule(a):
                if a[0] == "v" and a[1].startswith("F") and a[1][1:].isdigit():
                    k = int(a[1][1:])
                    pa = part_atom(ty, opname, (d,))
                    return Poly.var("F%d" % (k + 1)) * pa
                return None
            return rule
        return er

    def spec_lift(self, opname="self"):
        """field -> Poly for  lift(F0,F1,F2,F3)(operand)"""
        out = {}
        for field, pd in self.g["parts"]:
            out[field] = self.derive(Poly.var("F0"), pd, self.lift_rule(opname=opname))
        return out

    def spec_of_real(self, base):
        """field -> Poly for an arbitrary real expression `base` over operand real parts
        (atoms "a.re", "b.re", constants)"""
        out = {}
        for field, pd in self.g["parts"]:
            out[field] = self.derive(base, pd)
        return out


def p_field(p):
    (m, c), = p.t.items()
    (a, e), = m
    return a[1].split(".", 1)[1]


def presence_patterns(tyname):
    g = GRADINGS[tyname]
    if not g["vec"]:
        return [None]
    fields = [f for f, pd in g["parts"] if pd]
    out = []
    for mask in range(1 << len(fields)):
        out.append({f: bool(mask >> i & 1) for i, f in enumerate(fields)})
    return out


def absent_set(opname, presence):
    if presence is None:
        return set()
    return {"%s.%s" % (opname, f) for f, pres in presence.items() if not pres}


def value_part_poly(v, field):
    """Poly of a result part (absent == 0)"""
    x = v.f[field]
    if isinstance(x, Sc):
        return x.v
    if isinstance(x, Rec) and x.adt == "Derivative":
        o = x.f["0"]
        if not o.some:
            return Poly()
        return o.v.p
    raise Unsupported("unexpected part value %r" % (x,))


def value_part_shape(v, field):
    x = v.f[field]
    if isinstance(x, Rec) and x.adt == "Derivative" and x.f["0"].some:
        return x.f["0"].v.shape
    return None
