"""Compact pretty-printer for exported HIR bodies (debugging and reports)."""


def callee_s(c):
    if not c:
        return "?"
    s = c.get("path", "?")
    inst = c.get("inst")
    if inst:
        s += " => " + inst["path"] + ("" if inst.get("local") else " [ext]")
    elif c.get("local"):
        s += " [local]"
    return s


def pat_s(p):
    k = p.get("k")
    if k == "bind":
        s = ("mut " if p.get("mut") else "") + ("ref " if p.get("byref") else "") + p["name"]
        if p.get("sub"):
            s += " @ " + pat_s(p["sub"])
        return s
    if k == "wild":
        return "_"
    if k == "tuple":
        return "(" + ", ".join(pat_s(x) for x in p["pats"]) + ")"
    if k == "tuplestruct":
        return p["path"].get("text", "?") + "(" + ", ".join(pat_s(x) for x in p["pats"]) + ")"
    if k == "struct":
        return p["path"].get("text", "?") + "{" + ", ".join(f["name"] + ": " + pat_s(f["pat"]) for f in p["fields"]) + "}"
    if k == "ref":
        return "&" + pat_s(p["pat"])
    if k == "lit":
        if "lit" in p:
            return ("-" if p.get("neg") else "") + str(p["lit"]["v"])
        return p["path"].get("text", "?")
    if k == "or":
        return " | ".join(pat_s(x) for x in p["pats"])
    return "<pat:%s>" % k


def expr_s(e, ind=0):
    if e is None:
        return "()"
    k = e.get("k")
    pad = "  " * ind
    if k == "lit":
        return str(e["lit"]["v"])
    if k == "path":
        r = e["res"]
        if r["r"] == "local":
            return r["name"]
        if r["r"] == "def":
            return "{" + callee_s(r["c"]) + "}"
        return r.get("text", "?")
    if k == "call":
        return expr_s(e["f"]) + "(" + ", ".join(expr_s(a, ind) for a in e["args"]) + ")"
    if k == "mcall":
        return expr_s(e["recv"], ind) + "." + e["m"] + "{" + callee_s(e.get("callee")) + "}(" + ", ".join(expr_s(a, ind) for a in e["args"]) + ")"
    if k == "bin":
        c = e.get("callee")
        return "(" + expr_s(e["a"], ind) + " " + e["op"] + ("{" + callee_s(c) + "}" if c else "") + " " + expr_s(e["b"], ind) + ")"
    if k == "un":
        return e["op"] + expr_s(e["a"], ind)
    if k == "assignop":
        c = e.get("callee")
        return expr_s(e["a"], ind) + " " + e["op"] + "=" + ("{" + callee_s(c) + "}" if c else "") + " " + expr_s(e["b"], ind)
    if k == "assign":
        return expr_s(e["a"], ind) + " = " + expr_s(e["b"], ind)
    if k == "field":
        return expr_s(e["a"], ind) + "." + e["name"]
    if k == "index":
        return expr_s(e["a"], ind) + "[" + expr_s(e["b"], ind) + "]"
    if k == "tup":
        return "(" + ", ".join(expr_s(x, ind) for x in e["es"]) + ")"
    if k == "array":
        return "[" + ", ".join(expr_s(x, ind) for x in e["es"]) + "]"
    if k == "addr":
        return ("&mut " if e["mut"] else "&") + expr_s(e["a"], ind)
    if k == "cast":
        return "(" + expr_s(e["a"], ind) + " as _)"
    if k == "block":
        return block_s(e["b"], ind)
    if k == "if":
        s = "if " + expr_s(e["c"], ind) + " " + expr_s(e["then"], ind)
        if e.get("else"):
            s += " else " + expr_s(e["else"], ind)
        return s
    if k == "let":
        return "let " + pat_s(e["pat"]) + " = " + expr_s(e["init"], ind)
    if k == "match":
        s = "match[%s] " % e["src"] + expr_s(e["scrut"], ind) + " {\n"
        for a in e["arms"]:
            s += pad + "  " + pat_s(a["pat"]) + (" if " + expr_s(a["guard"], ind) if a.get("guard") else "") + " => " + expr_s(a["body"], ind + 1) + ",\n"
        return s + pad + "}"
    if k == "loop":
        return "loop[%s] " % e["src"] + block_s(e["body"], ind)
    if k == "closure":
        return "|" + ", ".join(pat_s(p) for p in e["params"]) + "| " + expr_s(e["body"], ind)
    if k == "ret":
        return "return " + expr_s(e.get("a"), ind)
    if k == "break":
        return "break " + (expr_s(e.get("a"), ind) if e.get("a") else "")
    if k == "continue":
        return "continue"
    if k == "struct":
        s = e["path"].get("text", "?") + " { " + ", ".join(f["name"] + ": " + expr_s(f["e"], ind) for f in e["fields"])
        if e.get("base"):
            s += ", .." + expr_s(e["base"], ind)
        return s + " }"
    return "<%s>" % k


def block_s(b, ind=0):
    pad = "  " * (ind + 1)
    s = ("unsafe " if b.get("unsafe") else "") + "{\n"
    for st in b["stmts"]:
        if st["s"] == "let":
            s += pad + "let " + pat_s(st["pat"]) + (" = " + expr_s(st["init"], ind + 1) if st.get("init") else "") + ";\n"
        elif st["s"] in ("expr", "semi"):
            s += pad + expr_s(st["e"], ind + 1) + ";\n"
    if b.get("tail"):
        s += pad + expr_s(b["tail"], ind + 1) + "\n"
    return s + "  " * ind + "}"


def body_s(b):
    return "fn %s(%s) %s" % (b["path"], ", ".join(pat_s(p) for p in b["params"]), expr_s(b["body"]))
