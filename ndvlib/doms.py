"""Domain S: truncated power series in the argument x with exact rational coefficients (order N).
Used to compare the rational approximations of the Bessel routines with the Maclaurin series of J_n near 0."""
from fractions import Fraction as Fr

N = 10


class Ser:
    __slots__ = ("c",)

    def __init__(self, c):
        c = list(c)[: N + 1]
        self.c = tuple(c + [Fr(0)] * (N + 1 - len(c)))

    def rename_idx(self, mp):
        return self

    def show(self):
        return "[" + ", ".join(str(float(x)) for x in self.c[:6]) + ", ...]"

    def at(self, x):
        return sum(c * x ** i for i, c in enumerate(self.c))

    def __repr__(self):
        return "Ser" + self.show()


def s_mul(a, b):
    out = [Fr(0)] * (N + 1)
    for i, x in enumerate(a.c):
        if x == 0:
            continue
        for j, y in enumerate(b.c):
            if i + j > N:
                break
            out[i + j] += x * y
    return Ser(out)


def s_recip(a):
    if a.c[0] == 0:
        raise ZeroDivisionError("series with zero constant term")
    out = [Fr(0)] * (N + 1)
    out[0] = 1 / a.c[0]
    for n in range(1, N + 1):
        acc = Fr(0)
        for k in range(1, n + 1):
            acc += a.c[k] * out[n - k]
        out[n] = -acc / a.c[0]
    return Ser(out)


class DomS:
    name = "S"

    def __init__(self, x0):
        self.x0 = Fr(x0)

    def const(self, c):
        return Ser([Fr(c)])

    def named(self, name):
        raise ValueError("named constant %s has no exact series" % name)

    def add(self, a, b):
        return Ser([x + y for x, y in zip(a.c, b.c)])

    def sub(self, a, b):
        return Ser([x - y for x, y in zip(a.c, b.c)])

    def neg(self, a):
        return Ser([-x for x in a.c])

    def mul(self, a, b):
        return s_mul(a, b)

    def recip(self, a):
        return s_recip(a)

    def div(self, a, b):
        # allow division by x^k when the numerator vanishes to that order
        k = 0
        while k <= N and b.c[k] == 0:
            k += 1
        if k == 0:
            return s_mul(a, s_recip(b))
        if any(x != 0 for x in a.c[:k]):
            raise ZeroDivisionError("pole")
        return s_mul(Ser(a.c[k:]), s_recip(Ser(b.c[k:])))

    def rem(self, a, b):
        raise ValueError("rem")

    def powi(self, a, n):
        raise ValueError("powi on series")

    powf = powi

    def fn(self, name, a):
        if name == "abs":
            return a if a.at(self.x0) >= 0 else self.neg(a)
        if name == "recip":
            return s_recip(a)
        raise ValueError("function %s on series" % name)

    def fn2(self, name, a, b):
        raise ValueError(name)

    def key(self, a):
        return ("ser", a.c)

    def show(self, a):
        return a.show()

    def concrete(self, a):
        if all(x == 0 for x in a.c[1:]):
            return a.c[0]
        return None

    def oracle(self, key, descr, ctx):
        def val(k):
            if isinstance(k, tuple) and len(k) == 2 and k[0] == "ser":
                return Ser(k[1]).at(self.x0)
            return None
        if key[0] == "pred":
            v = val(key[2])
            if v is None:
                return None
            return {"is_zero": v == 0, "is_positive": v > 0, "is_negative": v < 0, "is_one": v == 1}.get(key[1])
        if key[0] == "cmp":
            a, b = val(key[2]), val(key[3])
            if a is None or b is None:
                return None
            return {"==": a == b, "<": a < b, "<=": a <= b}[key[1]]
        return None
