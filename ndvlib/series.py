"""Exact Maclaurin series of the special functions (rational coefficient lists) and series rules."""
from fractions import Fraction as Fr
from math import factorial

DEG = 14


def sin_c():
    c = [Fr(0)] * (DEG + 1)
    for k in range(0, (DEG - 1) // 2 + 1):
        c[2 * k + 1] = Fr((-1) ** k, factorial(2 * k + 1))
    return c


def cos_c():
    c = [Fr(0)] * (DEG + 1)
    for k in range(0, DEG // 2 + 1):
        c[2 * k] = Fr((-1) ** k, factorial(2 * k))
    return c


def mul(a, b, deg=DEG):
    out = [Fr(0)] * (deg + 1)
    for i, x in enumerate(a):
        if x == 0:
            continue
        for j, y in enumerate(b):
            if i + j > deg:
                break
            out[i + j] += x * y
    return out


def add(a, b):
    n = max(len(a), len(b))
    a = a + [Fr(0)] * (n - len(a))
    b = b + [Fr(0)] * (n - len(b))
    return [x + y for x, y in zip(a, b)]


def scale(a, k):
    return [x * k for x in a]


def shift_down(a, p):
    """divide by x^p (the low coefficients must vanish)"""
    assert all(x == 0 for x in a[:p]), "series not divisible by x^%d" % p
    return a[p:]


X = [Fr(0), Fr(1)]


def sph_j(n):
    s, c = sin_c(), cos_c()
    if n == 0:
        return shift_down(s, 1)
    if n == 1:
        return shift_down(add(s, scale(mul(X, c), -1)), 2)
    if n == 2:
        three_minus_x2 = [Fr(3), Fr(0), Fr(-1)]
        num = add(mul(three_minus_x2, s), scale(mul(X, c), -3))
        return shift_down(num, 3)
    raise ValueError(n)


def bessel_j(n):
    """J_n = sum_k (-1)^k / (k! (k+n)!) (x/2)^(2k+n)"""
    c = [Fr(0)] * (DEG + 1)
    k = 0
    while 2 * k + n <= DEG:
        c[2 * k + n] = Fr((-1) ** k, factorial(k) * factorial(k + n)) / Fr(2) ** (2 * k + n)
        k += 1
    return c


def poly_coeffs(p, var_atom):
    """coefficient list of a Poly that is a polynomial in the single atom var_atom with rational coefficients; else None"""
    out = {}
    for m, c in p.t.items():
        if m == ():
            out[0] = out.get(0, 0) + c
            continue
        if len(m) != 1:
            return None
        (a, e), = m
        if a != var_atom or e[1] != 0 or e[0].denominator != 1 or e[0] < 0:
            return None
        out[int(e[0])] = out.get(int(e[0]), 0) + c
    if not out:
        return [Fr(0)]
    return [Fr(out.get(i, 0)) for i in range(max(out) + 1)]


def derivative_error_bound(code, true, k, h):
    """upper bound of |d^k/dx^k (true - code)| for |x| <= h, from the coefficient lists (true is truncated at DEG: the
    neglected tail is bounded by a geometric majorant for |x| <= h <= 1)"""
    n = max(len(code), len(true))
    code = code + [Fr(0)] * (n - len(code))
    true = true + [Fr(0)] * (n - len(true))
    total = Fr(0)
    for j in range(k, n):
        d = abs(true[j] - code[j])
        if d == 0:
            continue
        falling = Fr(factorial(j), factorial(j - k))
        total += d * falling * (Fr(h) ** (j - k))
    return total
