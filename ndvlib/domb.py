"""Domain B: finiteness / sign classes with exact constants and exponent ranges.

A value is a set of classes from {nan, -inf, neg, zero, pos, +inf}; constants additionally carry their exact rational
value, the symbolic power exponent additionally carries an interval (lo, hi, integer?) so that the sign of n-1, n-2,
n-3 is known.  Assumption (stated in the evidence): finite*finite and finite+finite stay finite (no overflow)."""
from fractions import Fraction as Fr

NAN, NINF, NEG, ZERO, POS, PINF = "nan", "-inf", "neg", "zero", "pos", "+inf"
FINITE = frozenset([NEG, ZERO, POS])
ALL = frozenset([NAN, NINF, NEG, ZERO, POS, PINF])


class BV:
    __slots__ = ("cls", "ex", "rng")

    def __init__(self, cls, ex=None, rng=None):
        self.cls = frozenset(cls)
        self.ex = ex      # exact Fraction
        self.rng = rng    # (lo, hi, integer) open interval bounds (None = unbounded) for exponent-like values

    def finite(self):
        return self.cls <= FINITE

    def rename_idx(self, mp):
        return self

    def show(self):
        s = "{" + ",".join(sorted(self.cls)) + "}"
        if self.ex is not None:
            s += "=" + str(self.ex)
        elif self.rng is not None:
            s += " in (%s,%s)%s" % (self.rng[0], self.rng[1], " integer" if self.rng[2] else "")
        return s

    def __repr__(self):
        return "BV" + self.show()


MIN_SUB = Fr(1, 2 ** 1075)     # below half the smallest f64 subnormal a result rounds to zero
MAX_FIN = Fr(2) ** 1024


def of_const(c):
    """exact constant with the f64 range model: magnitudes below the subnormal range flush to zero, above the finite
    range overflow to infinity (f32 has a narrower range; the f64 model is the optimistic one)"""
    c = Fr(c)
    if c != 0 and abs(c) <= MIN_SUB:
        c = Fr(0)
    if abs(c) >= MAX_FIN:
        return BV([PINF] if c > 0 else [NINF])
    return BV([ZERO] if c == 0 else ([POS] if c > 0 else [NEG]), ex=c)


def sign_of(b):
    """possible signs {-1,0,1} of a finite-or-not value from exact / range / classes"""
    if b.ex is not None:
        return {0} if b.ex == 0 else ({1} if b.ex > 0 else {-1})
    if b.rng is not None:
        lo, hi, integer = b.rng
        if integer:
            import math
            ilo = None if lo is None else math.floor(lo) + 1
            ihi = None if hi is None else math.ceil(hi) - 1
            s = set()
            if ihi is None or ihi > 0:
                s.add(1)
            if ilo is None or ilo < 0:
                s.add(-1)
            if (ilo is None or ilo <= 0) and (ihi is None or ihi >= 0):
                s.add(0)
            return s
        s = set()
        if hi is None or hi > 0:
            s.add(1)
        if lo is None or lo < 0:
            s.add(-1)
        if (lo is None or lo < 0) and (hi is None or hi > 0):
            s.add(0)
        return s
    s = set()
    if b.cls & {NEG, NINF}:
        s.add(-1)
    if ZERO in b.cls:
        s.add(0)
    if b.cls & {POS, PINF}:
        s.add(1)
    return s


def _add1(a, b):
    if a == NAN or b == NAN:
        return {NAN}
    if a in (PINF, NINF) or b in (PINF, NINF):
        if {a, b} == {PINF, NINF}:
            return {NAN}
        return {a if a in (PINF, NINF) else b}
    if a == ZERO:
        return {b}
    if b == ZERO:
        return {a}
    if a == b:
        return {a}
    return {NEG, ZERO, POS}


def _mul1(a, b):
    if a == NAN or b == NAN:
        return {NAN}
    inf_a, inf_b = a in (PINF, NINF), b in (PINF, NINF)
    if (inf_a and b == ZERO) or (inf_b and a == ZERO):
        return {NAN}
    if a == ZERO or b == ZERO:
        return {ZERO}
    sa = 1 if a in (POS, PINF) else -1
    sb = 1 if b in (POS, PINF) else -1
    s = sa * sb
    if inf_a or inf_b:
        return {PINF if s > 0 else NINF}
    return {POS if s > 0 else NEG}


def _lift2(f, a, b):
    out = set()
    for x in a.cls:
        for y in b.cls:
            out |= f(x, y)
    return out


class DomB:
    name = "B"

    def __init__(self):
        self.counter = 0
        self.eps = Fr(1, 2 ** 52)

    def const(self, c):
        return of_const(c)

    def named(self, name):
        if name == "EPS":
            return BV([POS], ex=self.eps)
        if name == "EPS_f64":
            return BV([POS], ex=Fr(1, 2 ** 52))
        if name == "EPS_f32":
            return BV([POS], ex=Fr(1, 2 ** 23))
        if name == "F::MIN_POSITIVE":
            return BV([POS], ex=Fr(1, 2 ** 1022))
        if name == "F::MAX":
            return BV([POS], ex=Fr(2) ** 1024 - Fr(2) ** 971)
        if name == "F::MIN":
            return BV([NEG], ex=-(Fr(2) ** 1024 - Fr(2) ** 971))
        if name == "F::INFINITY":
            return BV([PINF])
        if name == "F::NEG_INFINITY":
            return BV([NINF])
        if name == "F::NAN":
            return BV([NAN])
        if name.startswith("$") or name.startswith("dim_"):
            return BV([ZERO, POS])
        return BV([POS])

    def add(self, a, b):
        ex = a.ex + b.ex if (a.ex is not None and b.ex is not None) else None
        if ex is not None:
            return of_const(ex)
        rng = None
        if a.rng is not None and b.ex is not None:
            rng = (None if a.rng[0] is None else a.rng[0] + b.ex, None if a.rng[1] is None else a.rng[1] + b.ex,
                   a.rng[2] and b.ex.denominator == 1)
        elif b.rng is not None and a.ex is not None:
            rng = (None if b.rng[0] is None else b.rng[0] + a.ex, None if b.rng[1] is None else b.rng[1] + a.ex,
                   b.rng[2] and a.ex.denominator == 1)
        cls = _lift2(_add1, a, b)
        if rng is not None:
            cls = self._cls_of_rng(rng)
        return BV(cls, rng=rng)

    def _cls_of_rng(self, rng):
        s = sign_of(BV([], rng=rng))
        out = set()
        if 1 in s:
            out.add(POS)
        if -1 in s:
            out.add(NEG)
        if 0 in s:
            out.add(ZERO)
        return out

    def neg(self, a):
        m = {NAN: NAN, NINF: PINF, PINF: NINF, NEG: POS, POS: NEG, ZERO: ZERO}
        rng = None
        if a.rng is not None:
            rng = (None if a.rng[1] is None else -a.rng[1], None if a.rng[0] is None else -a.rng[0], a.rng[2])
        return BV({m[c] for c in a.cls}, ex=None if a.ex is None else -a.ex, rng=rng)

    def sub(self, a, b):
        return self.add(a, self.neg(b))

    def mul(self, a, b):
        if a.ex is not None and b.ex is not None:
            return of_const(a.ex * b.ex)
        return BV(_lift2(_mul1, a, b))

    def recip(self, a):
        if a.ex is not None and a.ex != 0:
            return of_const(1 / a.ex)
        out = set()
        for c in a.cls:
            out |= {NAN: {NAN}, ZERO: {PINF, NINF}, POS: {POS}, NEG: {NEG}, PINF: {ZERO}, NINF: {ZERO}}[c]
        return BV(out)

    def div(self, a, b):
        if a.ex is not None and b.ex is not None and b.ex != 0:
            return of_const(a.ex / b.ex)
        return self.mul(a, self.recip(b))

    def rem(self, a, b):
        return BV(ALL)

    def powf(self, a, n):
        """a ** n"""
        signs = sign_of(n)
        integer = (n.ex is not None and n.ex.denominator == 1) or (n.rng is not None and n.rng[2])
        out = set()
        for c in a.cls:
            if c == NAN:
                out.add(NAN)
            elif c == ZERO:
                if 1 in signs:
                    out.add(ZERO)
                if 0 in signs:
                    out.add(POS)
                if -1 in signs:
                    out |= {PINF} if not integer else {PINF, NINF}
            elif c == POS:
                out.add(POS)
            elif c == NEG:
                out |= ({NEG, POS} if integer else {NAN})
            elif c == PINF:
                if 1 in signs:
                    out.add(PINF)
                if 0 in signs:
                    out.add(POS)
                if -1 in signs:
                    out.add(ZERO)
            elif c == NINF:
                out |= ({NINF, PINF, ZERO, POS} if integer else {NAN})
        if a.ex is not None and n.ex is not None and n.ex.denominator == 1 and not (a.ex == 0 and n.ex < 0):
            return of_const(a.ex ** int(n.ex))
        return BV(out)

    powi = powf

    def fn(self, name, a):
        if name == "recip":
            return self.recip(a)
        if name == "re":
            return a
        if a.ex is not None:
            x = a.ex
            sgn = [ZERO] if x == 0 else ([POS] if x > 0 else [NEG])
            if name == "ln_1p" and x > -1:
                return BV(sgn)
            if name in ("ln", "log2", "log10") and x > 0:
                return BV([ZERO] if x == 1 else ([POS] if x > 1 else [NEG]))
            if name in ("asin", "atanh") and abs(x) < 1:
                return BV(sgn)
            if name == "acos" and abs(x) <= 1:
                return BV([POS] if x < 1 else [ZERO])
            if name == "acosh" and x >= 1:
                return BV([POS] if x > 1 else [ZERO])
            if name in ("sin", "tan", "sinh", "asinh", "atan", "tanh", "exp_m1", "cbrt") and abs(x) < 1:
                return BV(sgn)
        out = set()
        for c in a.cls:
            out |= self._fn1(name, c)
        if name == "abs" and a.ex is not None:
            return of_const(abs(a.ex))
        if name == "abs" and a.rng is not None:
            lo, hi, integer = a.rng
            if lo is not None and lo >= 0:
                return BV(out, rng=a.rng)
            if hi is not None and hi <= 0:
                return BV(out, rng=(-hi, None if lo is None else -lo, integer))
            m = None if (lo is None or hi is None) else max(-lo, hi)
            return BV(out | {ZERO}, rng=(Fr(-1, 10 ** 30), m, integer))
        return BV(out)

    def _fn1(self, name, c):
        if c == NAN:
            return {NAN}
        fin = {NEG, ZERO, POS}
        if name in ("sin", "cos"):
            return fin if c in FINITE else {NAN}
        if name == "tan":
            return fin if c in FINITE else {NAN}
        if name in ("exp", "exp2"):
            return {POS} if c in FINITE else ({PINF} if c == PINF else {ZERO})
        if name == "exp_m1":
            return {c} if c in FINITE else ({PINF} if c == PINF else {NEG})
        if name in ("ln", "log2", "log10"):
            return {POS: fin, ZERO: {NINF}, NEG: {NAN}, PINF: {PINF}, NINF: {NAN}}[c]
        if name == "ln_1p":
            return {POS: {POS}, ZERO: {ZERO}, NEG: {NEG, NINF, NAN}, PINF: {PINF}, NINF: {NAN}}[c]
        if name == "sqrt":
            return {POS: {POS}, ZERO: {ZERO}, NEG: {NAN}, PINF: {PINF}, NINF: {NAN}}[c]
        if name == "cbrt":
            return {c}
        if name in ("atan", "tanh", "asinh", "sinh", "signum"):
            if name in ("asinh", "sinh") and c in (PINF, NINF):
                return {c}
            return {POS: {POS}, ZERO: {ZERO}, NEG: {NEG}, PINF: {POS}, NINF: {NEG}}[c]
        if name == "cosh":
            return {POS} if c in FINITE else {PINF}
        if name == "abs":
            return {POS: {POS}, ZERO: {ZERO}, NEG: {POS}, PINF: {PINF}, NINF: {PINF}}[c]
        if name in ("asin", "acos", "atanh", "acosh"):
            return ALL if c not in FINITE else {NEG, ZERO, POS, NAN, PINF, NINF} - ({PINF, NINF} if name in ("asin", "acos") else set())
        if c in FINITE:
            return fin
        return set(ALL)

    def fn2(self, name, a, b):
        if name == "atan2":
            if NAN in a.cls or NAN in b.cls:
                return BV({NAN})
            if a.cls == {ZERO} and b.cls == {ZERO}:
                return BV({ZERO, POS, NEG})
            return BV(FINITE)
        if name == "log":
            return self.div(self.fn("ln", a), self.fn("ln", b))
        if name == "hypot":
            return self.fn("sqrt", self.add(self.mul(a, a), self.mul(b, b)))
        return BV(ALL)

    def key(self, a):
        self.counter += 1
        return ("bv", self.counter, a)

    def show(self, a):
        return a.show()

    def concrete(self, a):
        if a.ex is not None:
            return a.ex
        return None


def bv_oracle(key, descr, ctx):
    """decide guards from exact values / ranges / classes when they are determined"""
    def bvs(k):
        return [x[2] for x in k if isinstance(x, tuple) and len(x) == 3 and x[0] == "bv"]
    kind = key[0]
    vals = bvs(key)
    if kind == "pred" and vals:
        v = vals[0]
        s = sign_of(v)
        name = key[1]
        if name == "is_zero":
            if s == {0}:
                return True
            if 0 not in s:
                return False
        if name == "is_one":
            one = DomB().sub(v, of_const(1))
            s1 = sign_of(one) if (v.ex is not None or v.rng is not None) else {-1, 0, 1}
            if s1 == {0}:
                return True
            if 0 not in s1:
                return False
        if name in ("is_positive", "is_sign_positive"):
            if s <= {1}:
                return True
            if 1 not in s:
                return False if name == "is_positive" else None
        if name in ("is_negative", "is_sign_negative"):
            if s <= {-1}:
                return True
            if -1 not in s:
                return False
        return None
    if kind == "cmp" and len(vals) == 2:
        d = DomB().sub(vals[0], vals[1])
        if not (d.ex is not None or d.rng is not None):
            if vals[0].finite() and vals[1].finite() and vals[0].ex is None and vals[1].ex is None:
                return None
        s = sign_of(d)
        op = key[1]
        if op == "==":
            if s == {0}:
                return True
            if 0 not in s:
                return False
        if op == "<":
            if s <= {-1}:
                return True
            if -1 not in s:
                return False
        if op == "<=":
            if s <= {-1, 0}:
                return True
            if s <= {1}:
                return False
        return None
    return None
