#!/usr/bin/env python3
"""Regenerates MANIFEST.json from the table below (kept in one place so it stays valid)."""
import json, os
HERE = os.path.dirname(os.path.abspath(__file__))

CHECKS = {}
NA = {}

def claim(pid, category, text, note, technique, design_ref):
    CHECKS[pid] = {
        "property_id": pid,
        "quick_cmd": "./ndv check %s --tier quick" % pid,
        "thorough_cmd": "./ndv check %s --tier thorough" % pid,
        "evidence_file": "/verif/evidence/%s.json" % pid,
        "replay_cmd_template": "./ndv explain {path}",
        "engine": "ndv",
        "level_claimed": {"category": category, "text": text, "design_ref": design_ref},
        "level_note": note,
        "technique": technique,
    }

TB = "trusted: rustc's type checker and name resolution, the ndv-export exporter, the exact term rewriter in ndvlib/poly.py, the grading/differential tables of DESIGN.md Appendix A"

claim("C01", "proof",
      "Static proof over the reals: every closed form f0..f3 of the 24 elementary functions (as instantiated for each of the 8 types) is the function and its successive derivatives (formal differentiation of the code's own canonical form), every chain rule is the truncated Faa di Bruno formula, and every whole method (all parts, all presence patterns, all decision-tree paths) equals the formal derivatives of its real function; abs/signum/abs_sub branch on the real part. The dual-with-float operator forms the closed forms apply to values of the inner number type (all 40 generated forms per type) are the operation with the float lifted to a constant. The Python classes' methods for these functions forward to the Rust item of the same meaning (python configuration). The floating-point error bound of the statement is NOT decided.",
      TB + "; identities hold over the reals, rounding and domains of definition are not analysed",
      "abstract interpretation of typed HIR to exact canonical forms + formal differentiation (no execution, no solver)",
      "DESIGN.md 5.C01")
claim("C02", "proof",
      "Static proof over the reals: every part of a*b, a/b, a+b, a-b, -a for all 8 types in every presence pattern of optional parts, along every decision-tree path of the operator body, equals the part obtained by formal differentiation (Leibniz / quotient rule) of the real expression; the same for every other form of the operations between two dual numbers (owned/borrowed operand mixes, compound assignment, Neg, Inv: 23 impls per type) and for the optional-matrix container's own operators. A predicate on a value of the inner number type is treated as inspecting its real part only (nested types). Exactness on dyadic operands follows only under the statement's own no-rounding premise; rounding is NOT decided.",
      TB,
      "abstract interpretation of typed HIR to exact canonical forms, compared with a generated truncated-Taylor-algebra spec",
      "DESIGN.md 5.C02")

claim("C07", "proof",
      "Static proof: (L1) every operator impl and inherent method of the optional-matrix container satisfies alpha(result) == op(alpha(operands)) in every presence case; (L2) every arithmetic, chain-rule, elementary-function, power, scalar-operand and in-place operation of DualVec, Dual2Vec, HyperDualVec is discharged under all 2^k presence patterns against the same spec; (access) no code outside impl Derivative projects the presence flag. In-place lane updates (SimdValue replace/extract/select) of the vector types and of the container respect absent == zero (rule set of C11). The 1x1 accessor Derivative::unwrap yields zero for an absent part. Sequences of in-place updates follow by induction (each step preserves alpha).",
      TB,
      "abstract interpretation with Option semantics over typed HIR + who-may-access rule on resolved field projections",
      "DESIGN.md 5.C07")
claim("C08", "proof",
      "Static proof over the reals: each of the 40 operator/conversion impls generated per type (320 in total: owned/borrowed/mixed + - * /, compound assignment, scalar right operands, Neg, Inv, Sum, Product, From<F>, Zero, One, 14 FromPrimitive items, 16 FloatConst items) and the default mul_add equals the corresponding operation between dual numbers with the scalar lifted to a constant. Bit-equality of multiplicative scalar forms is NOT decided (the statement says 'to rounding').",
      TB,
      "abstract interpretation of typed HIR to exact canonical forms; impl table enumeration with floor 320",
      "DESIGN.md 5.C08")
claim("C09", "proof",
      "Static proof over the reals: powi/powf in every decision-tree arm (n=0, 1, 2 / |n-2|<eps, general symbolic n, negative n) equal the formal derivatives of x^n in all parts; powd (every path) equals the lifting of exp(n ln x) in base and exponent; recip/sqrt/cbrt agree with the power forms; the power items of nalgebra's ComplexField impls (powi, powf and powc with a DUAL exponent, sqrt, cbrt, recip) equal the same liftings; sound interval analysis shows every i32 sub-expression of powi stays in range for |n| <= 2^30 (violations only with an exact witness); float instances forward to std. The Python classes' powi/powf/powd/sqrt/cbrt/recip forward to the same Rust items. Float overflow/underflow of x^(n-3) is NOT decided. The operator / compound-assignment / iterator / Inv forms of all 8 types and the derivative container's operations, of which the power items are compositions, are the truncated-algebra operations on every path (rule sets of C08/C07 included).",
      TB,
      "abstract interpretation with symbolic exponent + integer interval analysis on typed HIR",
      "DESIGN.md 5.C09")

claim("C03", "proof",
      "Static discharge of the hypotheses of the forward-mode AD induction: every primitive a generic program can call (arithmetic with dual and scalar operands, compound assignment, 24 elementary functions, powi/powf/powd, mul_add, Sum/Product) is proven to be the lifting of its real function for all 8 types; the interface is closed under the verified set (trait items and per-type overrides enumerated from the compiled program); no body of the crate touches statics, interior mutability or atomics. The induction over expression DAGs is the standard paper argument. The program-level rounding bound is NOT decided.",
      TB + "; the paper induction (composition of liftings is the lifting of the composition)",
      "abstract interpretation to canonical forms + interface-closure and purity rules over the typed HIR",
      "DESIGN.md 5.C03")
claim("C04", "proof",
      "Static proof: chain rule, product and quotient of all 8 types are discharged against ONE formal-differentiation generator; code-vs-code sibling agreement: canonical forms of a richer type mapped through the grading homomorphism coincide with those of the poorer type (10 type pairs x chain/mul/div); NDERIV = T::NDERIV + order; re()/from_inner recurse through the inner type; 28 public aliases encode width/storage correctly; one generic impl per operation form and type constructor (static and dynamic sizes share it). Nesting: the generic bodies (closed forms, atan2, dual-with-float operator forms) are verified with the inner type abstract and T::re() an opaque projection, i.e. for a dual inner type as well as for f64. Numerical agreement 'to 32-bit accuracy' is NOT decided.",
      TB + "; Rust coherence for impl uniqueness",
      "canonical-form comparison between sibling implementations + impl/alias table rules",
      "DESIGN.md 5.C04")
claim("C06", "proof",
      "Sound dependency analysis (no cancellation, data + control dependence, all decision-tree paths) over 864 operation bodies: the real part of every result and every guard depends on operand real parts and scalar parameters only; representation independence of the vector types in an uninterpreted-term domain; comparison traits and predicates decide like the float predicate on the real part (checked semantically on sample values); min/max/clamp/copysign agree with the reference selection on all weak orderings and return operands wholesale; branch agreement: with guards decided at sample real parts on both sides of every switch, the real part of each of the 25 unary interface methods is the expression the plain-float instance evaluates on its own path; 58 plain-float items forward to the same-named std method. Conversions between float widths map the real part to the converted real part (rule set of C13). The 'few ulps' clause is NOT decided. Sign predicates are also evaluated at +0.0 and -0.0 (they are sign-bit tests); clamp returns self unless strictly outside the bounds (exact tie semantics of f64::clamp).",
      "trusted: rustc's type checker and name resolution, the exporter, the interpreter skeleton; assumes deterministic float operations; NaN orderings excluded",
      "abstract interpretation with a dependency-set domain over typed HIR + ordering-lattice enumeration",
      "DESIGN.md 5.C06")
claim("C11", "other",
      "Static rule set: 60 RealField constants map to the FloatConst constant of the same mathematical name (table from simba's f64 impl) with zero derivative parts; 156 ComplexField forwarding items evaluate to the canonical form of the generic dual operation they stand for (log with dual base, powf/powc as powd, hypot, scale/unscale, abs-like on sign arms); argument/try_sqrt/copysign/min/max/clamp match simba's f64 reference on every sign case / weak ordering and return operands wholesale; SimdValue lane operations are part-wise with the same lane index (scalar types, vector types in all presence cases, and the container). abs-like items are decided by the sign BIT at a zero real part (|+0.0| is the operand, |-0.0| its negation, as f64::abs). Numeric agreement of forwarded methods is C01. The operator / compound-assignment / iterator forms of all 8 types and the derivative container's operations are included (rule sets of C08/C07); sign predicates at signed zeros; copysign takes the sign bit whatever projection of sign.re is tested; clamp has the exact tie semantics of f64::clamp.",
      TB + "; name tables of DESIGN.md A.3/A.5 (cross-checked against simba 0.9.1)",
      "canonical-form evaluation of every trait item + reference-semantics comparison on the ordering lattice",
      "DESIGN.md 5.C11")

claim("C05", "other",
      "Abstract evaluation of all 20 public drivers with an opaque closure (element-uniform vectors, symbolic indices): what the closure receives is the input with the unit direction e_k seeded on element k (Kronecker delta on the loop counter / the i,j,k parameters, all 8 coincidence cases of i,j,k explored) in the declared shape and nothing else; loops that carry state are tested for element-uniformity; the returned tuple lists the result's parts in declared order, row-vector parts transposed, and for EVERY presence pattern of the closure's result an absent part comes back as zeros; jacobian[(i,j)] is part j of output i (rows written at the output's own index, not at a position after filtering) and partial_hessian is M x N; an Err from the closure is returned unchanged; infallible wrappers equal the try_ variants on Ok. The operations a differentiated closure is built from (optional-derivative container, + - * / in every operand form, absent parts) are the truncated-algebra operations (rule sets of C02/C07 reused). Thorough tier adds a compile_fail,E0308 witness (with compiling twin) pinning the Jacobian / partial-Hessian orientation at the type level. The derivative values themselves are C03.",
      "trusted: rustc type checker and name resolution, the exporter, the interpreter; loops over the inputs are element-uniform (one evaluation per symbolic index)",
      "abstract interpretation of typed HIR with an opaque closure + compile-fail witness",
      "DESIGN.md 5.C05")
claim("C13", "other",
      "Static rules: to_superset / from_superset_unchecked convert every part exactly once with the matching element conversion and preserve absence; sibling coherence: for every presence case and every assignment of per-part membership, from_superset(e).is_some() == is_in_subset(e) (Derivative, Dual, DualVec, Dual2, Dual2Vec), and a present derivative of dimension 0 is a member; lifting a float gives a constant, extraction the real part; the two unsafe element-wise loop nests match the bounded fully-initialising template (ranges are exactly 0..nrows/0..ncols of the source, row/column variables in their own slots of the unchecked read and write, one unconditional write per element, assume_init only after the nest); the remaining unsafe code is enumerated (trait methods forwarding to the same-named unsafe method). Container conversions are explored on every path: a conversion that branches on element values must be the element-wise map on each branch.",
      "trusted: rustc type checker and name resolution, the exporter, the interpreter; element conversions of the inner type are coherent (induction); nalgebra's uninit/get_unchecked contracts",
      "Option-semantics abstract interpretation + contradiction rule between sibling methods + template-with-slots rule for unsafe loops",
      "DESIGN.md 5.C13")
claim("C16", "other",
      "Structural rules over the expanded serde derive code (serde configuration) of Dual, Dual2, Dual3, HyperDual, HyperHyperDual: Serialize announces the struct under its own name with exactly the data fields and writes each once under its own identifier in declared order; Deserialize accepts exactly those keys and maps key -> variant -> local -> struct field of the same name, reads positional elements in the same order, and defaults only the PhantomData marker; both derives exist; the inner type is serialized through its own impl. Bit-exactness of the textual float representation belongs to the data format.",
      "trusted: rustc expansion and type checker (the derive output as compiled), the exporter, the structural walkers",
      "structural rules on the type-checked derive expansion (typed HIR)",
      "DESIGN.md 5.C16")
claim("C17", "other",
      "Structural + canonical-form rules over the pyo3 wrapper layer (python configuration, 56 classes): 1736 named methods are exactly self.0.<mapped Rust item>(args in order).into(); 224 binary dunders compute self.0 OP r with their own operator and self on the left in every extract branch; 280 reflected operators / negations evaluate to the canonical form of lhs OP self; __pow__ tries i32->powi, f64->powf, Self->powd in order; constructors are positional; 55 length-dispatched driver arms use one length for the array, the SVector types and the class, call the try_ function of their own name with the driver's parameters in declaration order (closures hand their parameters to the Python callable in order) and convert matrices by rows; all 10 #[pyfunction]s and every constructible class are registered. The length dispatch of each driver has one arm per size (no size twice, no hole) and a class named ..._<n> wraps the number type of dimension n. Getters get_<k-th>_derivative return exactly the parts of derivative order k in declared order; result tuples of the drivers are passed on component by component. The embedded interpreter and numpy object arrays at run time are NOT decided.",
      "trusted: rustc expansion and type checker (pyo3 macro output as compiled), the exporter, structural walkers, name table A.6",
      "forwarding / who-calls-what rules on resolved callees of the typed HIR + canonical-form evaluation of reflected operators",
      "DESIGN.md 5.C17")
claim("C18", "other",
      "Display::fmt of all 8 types (Derivative::fmt inlined) is evaluated against an output-buffer formatter using the FormatArgs templates of the expanded AST: along every path (all presence patterns; unit vs non-unit dimensions) the token sequence is the real part, then for every present part in declared order exactly once ` + `, all its elements (single element only under the 1x1 guard), a non-empty symbol; absent parts print nothing; placeholders are plain Display; symbols are pairwise distinct, parse-safe after a number and equal to the documented ones; __repr__ forwards to to_string (thorough, python configuration). The symbol of a higher-order part is the product of the first-order symbols of its directions (or all symbols are the field names). Float-to-string round trip is a std guarantee.",
      "trusted: rustc parser/expander (FormatArgs), the exporter, the interpreter; nalgebra's matrix Display prints every element",
      "abstract interpretation with an output-buffer domain over typed HIR + expanded-AST format templates",
      "DESIGN.md 5.C18")

claim("C10", "other",
      "Abstract interpretation of the code as written (not of its canonical form) in a finiteness/sign domain with exact constants, the f64 range model (underflow to 0, overflow to inf) and an interval for the power exponent: at every enumerated special point (powi at 0 for n = 0,1,2 and integers >= 3; powf at 0 for n = 0,1,2, integers >= 3 and non-integers above the order of the type; atan2 on either axis away from the origin; sph_j0/1/2, exp_m1, ln_1p at 0, at the immediate neighbours +-2^-1074 and at +-2^-1022; bessel_j0/1/2 at 0) with arbitrary finite derivative parts, every part of the result is finite on every path for all 8 types and for the plain-float instances (no 0*inf, 0/0, inf-inf). Value clause: at these points the arm taken by bessel_j*/sph_j* is the Maclaurin polynomial of the function (exact coefficient comparison, adequate truncation) and both arms of atan2 carry the derivative parts of the two-argument arctangent (rule sets of C14/C15/C01 reused); bessel_j0/1/2 interpreted on a full dual operand at a zero real part (both signs of zero) and at +-1e-6 give in every part the formal derivative of that polynomial composed with the operand's parts (all types, all presence patterns), and the sign items they call are +-self away from zero. Every operator and iterator form (Sum/Product) is the truncated-algebra operation on every path, so no shortcut on a zero real part drops derivative parts. Known findings: powf at 0 with a non-integer exponent in (order, 3).",
      "trusted: rustc type checker and name resolution, the exporter, the interpreter, the transfer functions of ndvlib/domb.py; assumes finite*finite and finite+finite stay finite; Horner-at-zero summary for polevl/p1evl",
      "abstract interpretation with a finiteness/sign lattice (+ exponent intervals) over typed HIR",
      "DESIGN.md 5.C10")
claim("C12", "other",
      "NARROW claim (linalg configuration). Guard (decided on the interpreted paths of LU::new): some path reports an error; every path that divides by the pivot has excluded a zero pivot magnitude; the tested magnitude is |a[m,i]| for the row m searched over the remaining rows i..n and that element is the pivot divided by (m = i or rows exchanged); LU values can only be produced by LU::new; branch conditions use real parts, counters, sizes or the scalar's own comparison items. Formula level (element-wise abstract interpretation of the loop nests and iterator pipelines with symbolic indices, store-to-load forwarding, composition of per-element effects with canonical sums, arrays named by the role they are returned in): LU::new is Doolittle elimination with whole-row partial pivoting statement by statement, on every path row exchange / permutation exchange / parity counter move together; solve and inverse are forward/back substitution on the permuted right-hand side (inverse: permuted unit vectors); determinant is the product of the pivots negated exactly for odd parity; the Jacobi sweep stops early only on a quantity over the whole strict upper triangle, rotates only on paths excluding a_pq = 0, drops an element without rotation only after testing both diagonal elements, uses the textbook t, c, s, tau and rotation formulas on all four index ranges, updates diagonal/accumulator, annihilates a_pq, and the final selection sort is ascending and exchanges eigenvector columns with their eigenvalues; the field-trait methods nalgebra's decompositions call and the element operations (+ - * /, compound assignment, also with absent derivative parts) are the verified dual operations. norm(x) is the square root of the sum of squares; the pivot candidate and the quantity the sweeps stop on are magnitudes; loop ranges are those of the schemes. NOT decided (declared out of reach): A x = b, A A^-1 = I, A V = V diag(lambda), Jacobi's formula, Hellmann-Feynman, convergence, tolerances, nalgebra's own decompositions. The forms of every trait linalg.rs calls on its entries (resolved callees, e.g. Sum through Iterator::sum) are included.",
      "trusted: rustc type checker and name resolution, the exporter, structural walkers; no loop invariants of the numerical algorithms are established",
      "tree-dominance and pairing rules on structured typed HIR",
      "DESIGN.md 5.C12")
claim("C14", "other",
      "NARROW claim: (1) parity — for each region (tiny, |x|<=5, |x|>5) the canonical real form computed for a negative argument, mirrored, equals +-the form for the positive argument (J0, J2 even, J1 odd; all guards decided by the real part); (2) interface purity — bessel.rs touches its operand only through DualNum/operator items, and those operations (+ - * / and the chain rule of all 8 types) are the truncated-algebra operations (rule sets of C02/C01 reused), hence derivative parts are those of the computed real function; (2') the same decided on the bodies: interpreted on a full dual operand (all 8 types, every presence pattern) along the path of each region 0, +-1e-6, +-1 — at a zero real part along the paths of both signs of zero — every part of bessel_j0/1/2 is the formal derivative of the real function the scalar interpretation of that path computes, composed with the operand's parts, so no reflection or shortcut drops or re-signs derivative parts; the Signed and DualNum items bessel.rs calls (abs, signum, recip, sqrt, sin_cos: resolved callees) satisfy their own lifting rules (the asymptotic arm |x| > 5 is covered through these, not lifted in dual mode); (3) small-argument series — each polynomial arm equals the Maclaurin polynomial of J_n up to its own degree and is adequate for derivative orders 0..4 at the arm's threshold (exact rational bound vs 2^-50); (4) switch points agree between the three functions; the rational arm's Maclaurin expansion (tables evaluated exactly in a truncated-power-series domain) agrees with that of J_n to the accuracy of the tables; the asymptotic arm has the leading behaviour sqrt(2/(pi x)) cos(x - (2n+1)pi/4). (5) the extracted approximants (rational arm for |x| <= 5, asymptotic arm beyond, coefficient tables read from the source) agree with J_n from its exact Maclaurin series at 18 grid points on both arms and both signs to 1e-16 in 60-digit arithmetic (the pinned tables reach 6e-18); every operator form including the dual-with-float forms is the truncated-algebra operation. NOT decided: accuracy of the approximants BETWEEN the grid points, continuity at |x|=5.",
      "trusted: rustc type checker and name resolution, the exporter, ndvlib/poly.py, Maclaurin tables computed in ndvlib/series.py",
      "real-function abstract interpretation per region + parity check by substitution + exact series bounds",
      "DESIGN.md 5.C14")
claim("C15", "proof",
      "Static proof over the reals for the dual impl (as instantiated for the 8 types) and both float impls: the closed-form arm is the definition of j0, j1, j2; the small-argument arm is the Maclaurin truncation and is adequate (exact rational bound <= 2^-50 for |x| < eps) for every derivative order the type carries, and up to total order 4 for nested types; the switch is symmetric in the sign of the argument, is the same condition in the dual impl and in both float instances (the machine epsilon of the instance's own float type), and both arms have the parity of the function; dual and float siblings agree arm by arm; in dual arithmetic both arms are the lifting of their real function (all parts, presence patterns). Every operator form both arms are built from (including the dual-with-float forms acting on the inner type) is the truncated-algebra operation. The Python classes' sph_j* methods forward to the Rust items of the same name. Rounding in the closed form near the switch is NOT decided.",
      TB + "; Maclaurin tables computed in ndvlib/series.py",
      "real-function and canonical-form abstract interpretation + exact Maclaurin comparison",
      "DESIGN.md 5.C15")

ALL = ["C%02d" % i for i in range(1, 19)]
for pid in ALL:
    if pid not in CHECKS:
        NA[pid] = "check not built yet in this round (design in DESIGN.md section 5.%s)" % pid

manifest = {
    "version": 1,
    "setup_cmd": "./ndv setup",
    "hooks": {
        "guard": "num_dual_verif",
        "enable": "none needed: the analysis is external to the build (RUSTC_WORKSPACE_WRAPPER=ndv-export under cargo +nightly check)",
        "baseline_off_cmd": "cd /repo && cargo test --workspace --no-fail-fast --offline",
        "source_commits": [],
        "add_only": True,
    },
    "engines": [
        {"name": "ndv-export", "path": "exporter/", "serves_properties": ALL,
         "kind_free_text": "rustc_private driver exporting typed HIR (resolved callees) and expanded-AST format templates as JSON facts"},
        {"name": "ndv", "path": "ndvlib/", "serves_properties": ALL,
         "kind_free_text": "Python rule engines: abstract interpreter over the facts with exact canonical-form domain, formal-differentiation spec generator, structural rules"},
    ],
    "checks": [CHECKS[k] for k in sorted(CHECKS)],
    "not_applicable": [{"property_id": k, "reason": NA[k]} for k in sorted(NA)],
    "notes": "Static analysis only: every verdict is computed from /repo's source as compiled (typed HIR), never by running num-dual code. See DESIGN.md.",
}
json.dump(manifest, open(os.path.join(HERE, "MANIFEST.json"), "w"), indent=1)
print("claimed:", sorted(CHECKS), "n/a:", sorted(NA))
