#!/usr/bin/env python3
"""Regenerates MANIFEST.json from the table below (kept in one place so it stays valid)."""
import json, os
HERE = os.path.dirname(os.path.abspath(__file__))

CHECKS = {}
NA = {}

def claim(pid, category, text, note, technique, design_ref):
    CHECKS[pid] = {
        "property_id": pid,
        "quick_cmd": "./ndv check %s --tier quick" % pid,
        "thorough_cmd": "./ndv check %s --tier thorough" % pid,
        "evidence_file": "/verif/evidence/%s.json" % pid,
        "replay_cmd_template": "./ndv explain {path}",
        "engine": "ndv",
        "level_claimed": {"category": category, "text": text, "design_ref": design_ref},
        "level_note": note,
        "technique": technique,
    }

TB = "trusted: rustc's type checker and name resolution, the ndv-export exporter, the exact term rewriter in ndvlib/poly.py, the grading/differential tables of DESIGN.md Appendix A"

claim("C01", "proof",
      "Static proof over the reals: every closed form f0..f3 of the 24 elementary functions (as instantiated for each of the 8 types) is the function and its successive derivatives (formal differentiation of the code's own canonical form), every chain rule is the truncated Faa di Bruno formula, and every whole method (all parts, all presence patterns, all decision-tree paths) equals the formal derivatives of its real function; abs/signum/abs_sub branch on the real part. The floating-point error bound of the statement is NOT decided.",
      TB + "; identities hold over the reals, rounding and domains of definition are not analysed",
      "abstract interpretation of typed HIR to exact canonical forms + formal differentiation (no execution, no solver)",
      "DESIGN.md 5.C01")
claim("C02", "proof",
      "Static proof over the reals: every part of a*b, a/b, a+b, a-b, -a for all 8 types in every presence pattern of optional parts equals the part obtained by formal differentiation (Leibniz / quotient rule) of the real expression. Exactness on dyadic operands follows only under the statement's own no-rounding premise; rounding is NOT decided.",
      TB,
      "abstract interpretation of typed HIR to exact canonical forms, compared with a generated truncated-Taylor-algebra spec",
      "DESIGN.md 5.C02")

ALL = ["C%02d" % i for i in range(1, 19)]
for pid in ALL:
    if pid not in CHECKS:
        NA[pid] = "check not built yet in this round (design in DESIGN.md section 5.%s)" % pid

manifest = {
    "version": 1,
    "setup_cmd": "./ndv setup",
    "hooks": {
        "guard": "num_dual_verif",
        "enable": "none needed: the analysis is external to the build (RUSTC_WORKSPACE_WRAPPER=ndv-export under cargo +nightly check)",
        "baseline_off_cmd": "cd /repo && cargo test --workspace --no-fail-fast --offline",
        "source_commits": [],
        "add_only": True,
    },
    "engines": [
        {"name": "ndv-export", "path": "exporter/", "serves_properties": ALL,
         "kind_free_text": "rustc_private driver exporting typed HIR (resolved callees) and expanded-AST format templates as JSON facts"},
        {"name": "ndv", "path": "ndvlib/", "serves_properties": ALL,
         "kind_free_text": "Python rule engines: abstract interpreter over the facts with exact canonical-form domain, formal-differentiation spec generator, structural rules"},
    ],
    "checks": [CHECKS[k] for k in sorted(CHECKS)],
    "not_applicable": [{"property_id": k, "reason": NA[k]} for k in sorted(NA)],
    "notes": "Static analysis only: every verdict is computed from /repo's source as compiled (typed HIR), never by running num-dual code. See DESIGN.md.",
}
json.dump(manifest, open(os.path.join(HERE, "MANIFEST.json"), "w"), indent=1)
print("claimed:", sorted(CHECKS), "n/a:", sorted(NA))
