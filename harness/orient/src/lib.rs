//! Type-level witnesses for C05.5 (orientation of driver results).
//!
//! Twin (must compile): the Jacobian of a 3 -> 2 function is a 2 x 3 matrix, the partial Hessian of
//! f(x in R^2, y in R^3) is 2 x 3.
//! ```
//! use nalgebra::{SMatrix, SVector};
//! use num_dual::{jacobian, partial_hessian, DualNum, DualSVec64, HyperDualSVec64};
//! let x = SVector::from([1.0, 2.0, 3.0]);
//! let (_f, jac) = jacobian(|x: SVector<DualSVec64<3>, 3>| SVector::from([x[0] * x[1], x[1] * x[2]]), x);
//! let _j: SMatrix<f64, 2, 3> = jac;
//! let (_f, _gx, _gy, h) = partial_hessian(
//!     |x: SVector<HyperDualSVec64<2, 3>, 2>, y: SVector<HyperDualSVec64<2, 3>, 3>| x[0] * y[0] + x[1] * y[2].powi(2),
//!     SVector::from([1.0, 2.0]),
//!     SVector::from([1.0, 2.0, 3.0]),
//! );
//! let _h: SMatrix<f64, 2, 3> = h;
//! ```
//!
//! Witness 1 (must NOT compile): binding the Jacobian of a 3 -> 2 function to a 3 x 2 matrix.
//! ```compile_fail,E0308
//! use nalgebra::{SMatrix, SVector};
//! use num_dual::{jacobian, DualNum, DualSVec64};
//! let x = SVector::from([1.0, 2.0, 3.0]);
//! let (_f, jac) = jacobian(|x: SVector<DualSVec64<3>, 3>| SVector::from([x[0] * x[1], x[1] * x[2]]), x);
//! let _j: SMatrix<f64, 3, 2> = jac;
//! ```
//!
//! Witness 2 (must NOT compile): binding the partial Hessian of f(x in R^2, y in R^3) to a 3 x 2 matrix.
//! ```compile_fail,E0308
//! use nalgebra::{SMatrix, SVector};
//! use num_dual::{partial_hessian, DualNum, HyperDualSVec64};
//! let (_f, _gx, _gy, h) = partial_hessian(
//!     |x: SVector<HyperDualSVec64<2, 3>, 2>, y: SVector<HyperDualSVec64<2, 3>, 3>| x[0] * y[0] + x[1] * y[2].powi(2),
//!     SVector::from([1.0, 2.0]),
//!     SVector::from([1.0, 2.0, 3.0]),
//! );
//! let _h: SMatrix<f64, 3, 2> = h;
//! ```
