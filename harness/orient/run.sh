#!/bin/bash
# compile_fail witnesses with their compiling twin; rustdoc honours the error code only on nightly
set -e
HERE="$(cd "$(dirname "$0")" && pwd)"
cp /repo/Cargo.lock "$HERE/Cargo.lock"
export CARGO_NET_OFFLINE=true
export CARGO_TARGET_DIR="$HERE/../../.cache/target/orient"
cd "$HERE"
out=$(cargo +nightly test --doc --offline 2>&1) || { echo "$out" | tail -30; exit 1; }
echo "$out" | grep -E "test result|compile fail|test src" | head
echo "$out" | grep -q "3 passed; 0 failed" || { echo "expected 3 doc tests to pass"; exit 1; }
