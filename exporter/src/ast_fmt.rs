// Export FormatArgs templates from the expanded AST (format strings no longer exist as such in HIR).
use crate::json::J;
use rustc_ast as ast;
use rustc_ast::visit::{self, Visitor};
use rustc_middle::ty::TyCtxt;
use rustc_span::Span;

struct V<'a, 'tcx> {
    tcx: TyCtxt<'tcx>,
    out: &'a mut Vec<J>,
    // stack of enclosing fn names / impl descriptions
    fn_stack: Vec<(String, Span)>,
    impl_stack: Vec<String>,
}

pub fn loc(tcx: TyCtxt<'_>, sp: Span) -> String {
    let sm = tcx.sess.source_map();
    let lo = sm.lookup_char_pos(sp.lo());
    let f = match &lo.file.name {
        rustc_span::FileName::Real(r) => match r.local_path() {
            Some(p) => p.to_string_lossy().to_string(),
            None => format!("{:?}", lo.file.name),
        },
        other => format!("{:?}", other),
    };
    format!("{}:{}:{}", f, lo.line, lo.col.0 + 1)
}

impl<'a, 'tcx, 'ast> Visitor<'ast> for V<'a, 'tcx> {
    fn visit_item(&mut self, i: &'ast ast::Item) {
        match &i.kind {
            ast::ItemKind::Impl(imp) => {
                let self_ty = rustc_ast_pretty::pprust::ty_to_string(&imp.self_ty);
                let tr = imp
                    .of_trait
                    .as_ref()
                    .map(|t| rustc_ast_pretty::pprust::path_to_string(&t.trait_ref.path));
                self.impl_stack.push(match tr {
                    Some(t) => format!("{} for {}", t, self_ty),
                    None => self_ty,
                });
                visit::walk_item(self, i);
                self.impl_stack.pop();
            }
            ast::ItemKind::Fn(f) => {
                self.fn_stack.push((f.ident.name.to_string(), i.span));
                visit::walk_item(self, i);
                self.fn_stack.pop();
            }
            _ => visit::walk_item(self, i),
        }
    }

    fn visit_assoc_item(&mut self, i: &'ast ast::AssocItem, ctxt: visit::AssocCtxt) {
        if let ast::AssocItemKind::Fn(f) = &i.kind {
            self.fn_stack.push((f.ident.name.to_string(), i.span));
            visit::walk_assoc_item(self, i, ctxt);
            self.fn_stack.pop();
        } else {
            visit::walk_assoc_item(self, i, ctxt);
        }
    }

    fn visit_expr(&mut self, e: &'ast ast::Expr) {
        if let ast::ExprKind::FormatArgs(fa) = &e.kind {
            let mut pieces = vec![];
            for p in fa.template.iter() {
                match p {
                    ast::FormatArgsPiece::Literal(s) => {
                        pieces.push(J::Obj(vec![("lit", J::s(s.as_str()))]));
                    }
                    ast::FormatArgsPiece::Placeholder(ph) => {
                        let idx = match ph.argument.index {
                            Ok(i) => i as i64,
                            Err(_) => -1,
                        };
                        let o = &ph.format_options;
                        let plain = o.width.is_none()
                            && o.precision.is_none()
                            && o.alignment.is_none()
                            && o.fill.is_none()
                            && o.sign.is_none()
                            && !o.alternate
                            && !o.zero_pad
                            && o.debug_hex.is_none();
                        pieces.push(J::Obj(vec![
                            ("arg", J::Int(idx)),
                            ("trait", J::s(format!("{:?}", ph.format_trait))),
                            ("plain", J::Bool(plain)),
                            ("opts", if plain { J::Null } else { J::s(format!("{:?}", o)) }),
                        ]));
                    }
                }
            }
            let mut args = vec![];
            for a in fa.arguments.all_args() {
                args.push(J::Obj(vec![
                    ("kind", J::s(match &a.kind {
                        ast::FormatArgumentKind::Normal => "normal".to_string(),
                        ast::FormatArgumentKind::Named(i) => format!("named:{}", i.name),
                        ast::FormatArgumentKind::Captured(i) => format!("captured:{}", i.name),
                    })),
                    ("expr", J::s(rustc_ast_pretty::pprust::expr_to_string(&a.expr))),
                ]));
            }
            let (fname, fspan) = match self.fn_stack.last() {
                Some((n, s)) => (n.clone(), Some(*s)),
                None => ("".to_string(), None),
            };
            self.out.push(J::Obj(vec![
                ("fn", J::s(fname)),
                ("fn_loc", J::opt_s(fspan.map(|s| loc(self.tcx, s)))),
                ("impl", J::opt_s(self.impl_stack.last().cloned())),
                ("loc", J::s(loc(self.tcx, e.span))),
                ("callsite", J::s(loc(self.tcx, e.span.source_callsite()))),
                ("pieces", J::Arr(pieces)),
                ("args", J::Arr(args)),
            ]));
        }
        visit::walk_expr(self, e);
    }
}

pub fn export(tcx: TyCtxt<'_>) -> J {
    let mut out = vec![];
    {
        let steal = tcx.resolver_for_lowering();
        let guard = steal.borrow();
        let krate: &ast::Crate = &guard.1;
        let mut v = V { tcx, out: &mut out, fn_stack: vec![], impl_stack: vec![] };
        visit::walk_crate(&mut v, krate);
    }
    J::Arr(out)
}
