// ndv-export: a rustc_private driver that exports the typed HIR of the workspace member
// (num-dual) as JSON facts. Injected via RUSTC_WORKSPACE_WRAPPER under `cargo +nightly check`.
//
// Facts written (one write per process) to $NDV_FACTS_DIR/<crate>-<cfgtag>.json:
//   types    : interned type table
//   bodies   : every HIR body owner (fn, assoc fn, closure, const) as a typed expression tree with
//              resolved callees (trait method + impl instance)
//   adts     : local structs with fields and attributes
//   impls    : local impls (trait, self type, items)
//   traits   : local traits with items (provided/required)
//   aliases  : local type aliases
//   fmt      : FormatArgs templates from the expanded AST
//
// The driver never fails the build on its own: it exits with the compiler's status.
#![feature(rustc_private)]

extern crate rustc_ast;
extern crate rustc_ast_pretty;
extern crate rustc_driver;
extern crate rustc_hir;
extern crate rustc_interface;
extern crate rustc_middle;
extern crate rustc_session;
extern crate rustc_span;
extern crate rustc_abi;

mod json;
mod ast_fmt;
mod hir_export;

use rustc_driver::Compilation;
use rustc_interface::interface::Compiler;
use rustc_middle::ty::TyCtxt;

pub struct Exporter {
    pub fmt_facts: Option<json::J>,
}

impl rustc_driver::Callbacks for Exporter {
    fn after_expansion<'tcx>(&mut self, _c: &Compiler, tcx: TyCtxt<'tcx>) -> Compilation {
        if wanted(tcx) {
            self.fmt_facts = Some(ast_fmt::export(tcx));
        }
        Compilation::Continue
    }

    fn after_analysis<'tcx>(&mut self, _c: &Compiler, tcx: TyCtxt<'tcx>) -> Compilation {
        if wanted(tcx) {
            let fmt = self.fmt_facts.take().unwrap_or(json::J::Arr(vec![]));
            hir_export::export(tcx, fmt);
        }
        Compilation::Continue
    }
}

fn wanted(tcx: TyCtxt<'_>) -> bool {
    let name = tcx.crate_name(rustc_span::def_id::LOCAL_CRATE);
    let want = std::env::var("NDV_CRATE").unwrap_or_else(|_| "num_dual".to_string());
    name.as_str() == want && std::env::var("NDV_FACTS_DIR").is_ok()
}

fn main() {
    // RUSTC_WORKSPACE_WRAPPER invocation: argv = [wrapper, rustc, args...]; drop argv[1].
    let mut args: Vec<String> = std::env::args().collect();
    if args.len() > 1 && (args[1].ends_with("rustc") || args[1].contains("/rustc")) {
        args.remove(1);
    }
    let mut cb = Exporter { fmt_facts: None };
    rustc_driver::run_compiler(&args, &mut cb);
}
