// Typed-HIR exporter.
use crate::ast_fmt::loc;
use crate::json::J;
use rustc_hir as hir;
use rustc_hir::def::{DefKind, Res};
use rustc_hir::def_id::{DefId, LocalDefId};
use rustc_middle::ty::{self, GenericArgKind, GenericArgsRef, Instance, Ty, TyCtxt, TypeckResults};
use rustc_span::Span;
use std::collections::HashMap;

struct Cx<'tcx> {
    tcx: TyCtxt<'tcx>,
    types: Vec<J>,
    type_ix: HashMap<Ty<'tcx>, usize>,
    locs: Vec<J>,
    loc_ix: HashMap<String, usize>,
}

fn did_str(d: DefId) -> String {
    format!("{}:{}", d.krate.as_u32(), d.index.as_u32())
}

impl<'tcx> Cx<'tcx> {
    fn loc(&mut self, sp: Span) -> J {
        let tcx = self.tcx;
        let mut key = loc(tcx, sp);
        let mut macs: Vec<J> = vec![];
        let mut cs = None;
        if sp.from_expansion() {
            for e in sp.macro_backtrace() {
                let name = match e.kind {
                    rustc_span::ExpnKind::Macro(_, n) => n.to_string(),
                    rustc_span::ExpnKind::Desugaring(d) => format!("desugar:{:?}", d),
                    rustc_span::ExpnKind::AstPass(p) => format!("astpass:{:?}", p),
                    rustc_span::ExpnKind::Root => "root".to_string(),
                };
                macs.push(J::s(name));
            }
            let c = loc(tcx, sp.source_callsite());
            key = format!("{}|{}|{:?}", key, c, macs);
            cs = Some(c);
        }
        if let Some(i) = self.loc_ix.get(&key) {
            return J::Int(*i as i64);
        }
        let i = self.locs.len();
        self.locs.push(J::Obj(vec![
            ("s", J::s(loc(tcx, sp))),
            ("cs", J::opt_s(cs)),
            ("mac", if macs.is_empty() { J::Null } else { J::Arr(macs) }),
        ]));
        self.loc_ix.insert(key, i);
        J::Int(i as i64)
    }

    fn ty(&mut self, t: Ty<'tcx>) -> J {
        if let Some(i) = self.type_ix.get(&t) {
            return J::Int(*i as i64);
        }
        // reserve the slot first (recursive types cannot occur, but args refer to earlier slots)
        let s = format!("{}", t);
        let j = match t.kind() {
            ty::Bool | ty::Char | ty::Int(_) | ty::Uint(_) | ty::Float(_) | ty::Str | ty::Never => {
                J::Obj(vec![("k", J::s("prim")), ("n", J::s(s.clone()))])
            }
            ty::Adt(def, args) => {
                let a = self.gargs(args);
                J::Obj(vec![
                    ("k", J::s("adt")),
                    ("n", J::s(self.tcx.def_path_str(def.did()))),
                    ("did", J::s(did_str(def.did()))),
                    ("local", J::Bool(def.did().is_local())),
                    ("a", a),
                ])
            }
            ty::Ref(_, inner, m) => {
                let i = self.ty(*inner);
                J::Obj(vec![("k", J::s("ref")), ("m", J::Bool(m.is_mut())), ("t", i)])
            }
            ty::RawPtr(inner, m) => {
                let i = self.ty(*inner);
                J::Obj(vec![("k", J::s("ptr")), ("m", J::Bool(m.is_mut())), ("t", i)])
            }
            ty::Param(p) => J::Obj(vec![("k", J::s("param")), ("n", J::s(p.name.as_str()))]),
            ty::Tuple(ts) => {
                let v: Vec<J> = ts.iter().map(|t| self.ty(t)).collect();
                J::Obj(vec![("k", J::s("tuple")), ("ts", J::Arr(v))])
            }
            ty::Array(inner, _) => {
                let i = self.ty(*inner);
                J::Obj(vec![("k", J::s("array")), ("t", i)])
            }
            ty::Slice(inner) => {
                let i = self.ty(*inner);
                J::Obj(vec![("k", J::s("slice")), ("t", i)])
            }
            ty::Alias(alias) => {
                let a = self.gargs(alias.args);
                J::Obj(vec![
                    ("k", J::s("alias")),
                    ("n", J::s(self.tcx.def_path_str(alias.kind.def_id()))),
                    ("a", a),
                ])
            }
            ty::FnDef(did, args) => {
                let a = self.gargs(args);
                J::Obj(vec![
                    ("k", J::s("fndef")),
                    ("n", J::s(self.tcx.def_path_str(*did))),
                    ("did", J::s(did_str(*did))),
                    ("local", J::Bool(did.is_local())),
                    ("a", a),
                ])
            }
            ty::Closure(did, _) => {
                J::Obj(vec![("k", J::s("closure")), ("did", J::s(did_str(*did)))])
            }
            _ => J::Obj(vec![("k", J::s("other"))]),
        };
        let j = match j {
            J::Obj(mut v) => {
                v.push(("s", J::s(s)));
                J::Obj(v)
            }
            o => o,
        };
        let i = self.types.len();
        self.types.push(j);
        self.type_ix.insert(t, i);
        J::Int(i as i64)
    }

    fn gargs(&mut self, args: GenericArgsRef<'tcx>) -> J {
        let mut v = vec![];
        for a in args.iter() {
            match a.kind() {
                GenericArgKind::Type(t) => v.push(self.ty(t)),
                GenericArgKind::Const(c) => v.push(J::Obj(vec![("const", J::s(format!("{}", c)))])),
                GenericArgKind::Lifetime(_) => {}
            }
        }
        J::Arr(v)
    }

    /// Describe a callee: the (trait) item that was named and, when resolvable, the impl item.
    fn callee(&mut self, owner: LocalDefId, def_id: DefId, args: Option<GenericArgsRef<'tcx>>) -> J {
        let tcx = self.tcx;
        let kind = tcx.def_kind(def_id);
        let mut o: Vec<(&'static str, J)> = vec![
            ("path", J::s(tcx.def_path_str(def_id))),
            ("did", J::s(did_str(def_id))),
            ("local", J::Bool(def_id.is_local())),
            ("dk", J::s(format!("{:?}", kind))),
            ("name", J::opt_s(tcx.opt_item_name(def_id).map(|s| s.to_string()))),
        ];
        if let Some(assoc) = tcx.opt_associated_item(def_id) {
            let cont = assoc.container_id(tcx);
            match tcx.def_kind(cont) {
                DefKind::Trait => {
                    o.push(("trait", J::s(tcx.def_path_str(cont))));
                }
                DefKind::Impl { .. } => {
                    o.push(("impl", J::s(did_str(cont))));
                    let st = tcx.type_of(cont).instantiate_identity().skip_norm_wip();
                    let stj = self.ty(st);
                    o.push(("impl_self", stj));
                    if let Some(tr) = tcx.impl_opt_trait_ref(cont) {
                        o.push(("impl_trait", J::s(tcx.def_path_str(tr.skip_binder().def_id))));
                    }
                }
                _ => {}
            }
        }
        if let Some(args) = args {
            let a = self.gargs(args);
            o.push(("args", a));
            if matches!(kind, DefKind::Fn | DefKind::AssocFn) {
                let env = ty::TypingEnv::post_analysis(tcx, owner);
                // try_resolve may fail to normalise under generic environments: guard by catching None.
                if let Ok(Some(inst)) = Instance::try_resolve(tcx, env, def_id, args) {
                    let idid = inst.def_id();
                    if idid != def_id {
                        let mut io: Vec<(&'static str, J)> = vec![
                            ("path", J::s(tcx.def_path_str(idid))),
                            ("did", J::s(did_str(idid))),
                            ("local", J::Bool(idid.is_local())),
                            ("def", J::s(format!("{:?}", inst.def).split('(').next().unwrap_or("").to_string())),
                        ];
                        if let Some(assoc) = tcx.opt_associated_item(idid) {
                            let cont = assoc.container_id(tcx);
                            if let DefKind::Impl { .. } = tcx.def_kind(cont) {
                                io.push(("impl", J::s(did_str(cont))));
                                let st = tcx.type_of(cont).instantiate_identity().skip_norm_wip();
                                let stj = self.ty(st);
                                io.push(("impl_self", stj));
                            }
                        }
                        let ia = self.gargs(inst.args);
                        io.push(("args", ia));
                        o.push(("inst", J::Obj(io)));
                    }
                }
            }
        }
        J::Obj(o)
    }

    fn res(&mut self, owner: LocalDefId, tr: &TypeckResults<'tcx>, res: Res, hir_id: hir::HirId) -> J {
        match res {
            Res::Local(id) => {
                let name = self.tcx.hir_name(id).to_string();
                J::Obj(vec![
                    ("r", J::s("local")),
                    ("name", J::s(name)),
                    ("id", J::s(format!("{}.{}", id.owner.def_id.local_def_index.as_u32(), id.local_id.as_u32()))),
                ])
            }
            Res::Def(kind, did) => {
                let args = tr.node_args_opt(hir_id);
                let c = match kind {
                    DefKind::Fn | DefKind::AssocFn | DefKind::Const { .. } | DefKind::AssocConst { .. } | DefKind::Ctor(..) => {
                        self.callee(owner, did, args)
                    }
                    _ => J::Obj(vec![
                        ("path", J::s(self.tcx.def_path_str(did))),
                        ("did", J::s(did_str(did))),
                        ("dk", J::s(format!("{:?}", kind))),
                    ]),
                };
                J::Obj(vec![("r", J::s("def")), ("dk", J::s(format!("{:?}", kind))), ("c", c)])
            }
            Res::SelfCtor(did) => J::Obj(vec![("r", J::s("selfctor")), ("did", J::s(did_str(did)))]),
            Res::SelfTyAlias { .. } | Res::SelfTyParam { .. } => J::Obj(vec![("r", J::s("selfty"))]),
            other => J::Obj(vec![("r", J::s("other")), ("s", J::s(format!("{:?}", other)))]),
        }
    }

    fn qpath(&mut self, owner: LocalDefId, tr: &TypeckResults<'tcx>, qp: &hir::QPath<'tcx>, id: hir::HirId) -> J {
        let res = tr.qpath_res(qp, id);
        let text = match qp {
            hir::QPath::Resolved(_, p) => {
                p.segments.iter().map(|s| s.ident.name.to_string()).collect::<Vec<_>>().join("::")
            }
            hir::QPath::TypeRelative(_, seg) => format!("<>::{}", seg.ident.name),
        };
        let mut r = self.res(owner, tr, res, id);
        if let J::Obj(ref mut v) = r {
            v.push(("text", J::s(text)));
        }
        r
    }

    fn pat(&mut self, owner: LocalDefId, tr: &TypeckResults<'tcx>, p: &hir::Pat<'tcx>) -> J {
        let t = self.ty(tr.pat_ty(p));
        let mut o: Vec<(&'static str, J)> = vec![("t", t)];
        match &p.kind {
            hir::PatKind::Wild | hir::PatKind::Missing => o.push(("k", J::s("wild"))),
            hir::PatKind::Binding(mode, id, ident, sub) => {
                o.push(("k", J::s("bind")));
                o.push(("name", J::s(ident.name.as_str())));
                o.push(("id", J::s(format!("{}.{}", id.owner.def_id.local_def_index.as_u32(), id.local_id.as_u32()))));
                o.push(("byref", J::Bool(!matches!(mode.0, hir::ByRef::No))));
                o.push(("mut", J::Bool(mode.1.is_mut())));
                if let Some(s) = sub {
                    let sj = self.pat(owner, tr, s);
                    o.push(("sub", sj));
                }
            }
            hir::PatKind::Struct(qp, fields, _) => {
                o.push(("k", J::s("struct")));
                let q = self.qpath(owner, tr, qp, p.hir_id);
                o.push(("path", q));
                let mut fs = vec![];
                for f in fields.iter() {
                    let pj = self.pat(owner, tr, f.pat);
                    fs.push(J::Obj(vec![("name", J::s(f.ident.name.as_str())), ("pat", pj)]));
                }
                o.push(("fields", J::Arr(fs)));
            }
            hir::PatKind::TupleStruct(qp, pats, ddpos) => {
                o.push(("k", J::s("tuplestruct")));
                let q = self.qpath(owner, tr, qp, p.hir_id);
                o.push(("path", q));
                let ps: Vec<J> = pats.iter().map(|x| self.pat(owner, tr, x)).collect();
                o.push(("pats", J::Arr(ps)));
                if let Some(d) = ddpos.as_opt_usize() {
                    o.push(("dotdot", J::Int(d as i64)));
                }
            }
            hir::PatKind::Or(pats) => {
                o.push(("k", J::s("or")));
                let ps: Vec<J> = pats.iter().map(|x| self.pat(owner, tr, x)).collect();
                o.push(("pats", J::Arr(ps)));
            }
            hir::PatKind::Tuple(pats, ddpos) => {
                o.push(("k", J::s("tuple")));
                let ps: Vec<J> = pats.iter().map(|x| self.pat(owner, tr, x)).collect();
                o.push(("pats", J::Arr(ps)));
                if let Some(d) = ddpos.as_opt_usize() {
                    o.push(("dotdot", J::Int(d as i64)));
                }
            }
            hir::PatKind::Ref(inner, _, m) => {
                o.push(("k", J::s("ref")));
                o.push(("mut", J::Bool(m.is_mut())));
                let i = self.pat(owner, tr, inner);
                o.push(("pat", i));
            }
            hir::PatKind::Box(inner) | hir::PatKind::Deref(inner) => {
                o.push(("k", J::s("deref")));
                let i = self.pat(owner, tr, inner);
                o.push(("pat", i));
            }
            hir::PatKind::Expr(pe) => {
                o.push(("k", J::s("lit")));
                match &pe.kind {
                    hir::PatExprKind::Lit { lit, negated } => {
                        o.push(("lit", lit_json(lit)));
                        o.push(("neg", J::Bool(*negated)));
                    }
                    hir::PatExprKind::Path(qp) => {
                        let q = self.qpath(owner, tr, qp, pe.hir_id);
                        o.push(("path", q));
                    }
                }
            }
            hir::PatKind::Slice(a, mid, b) => {
                o.push(("k", J::s("slice")));
                let aj: Vec<J> = a.iter().map(|x| self.pat(owner, tr, x)).collect();
                let bj: Vec<J> = b.iter().map(|x| self.pat(owner, tr, x)).collect();
                o.push(("before", J::Arr(aj)));
                if let Some(m) = mid {
                    let mj = self.pat(owner, tr, m);
                    o.push(("mid", mj));
                }
                o.push(("after", J::Arr(bj)));
            }
            other => {
                o.push(("k", J::s("other")));
                o.push(("s", J::s(format!("{:?}", std::mem::discriminant(other)))));
            }
        }
        J::Obj(o)
    }

    fn block(&mut self, owner: LocalDefId, tr: &TypeckResults<'tcx>, b: &hir::Block<'tcx>) -> J {
        let mut stmts = vec![];
        for s in b.stmts.iter() {
            match &s.kind {
                hir::StmtKind::Let(l) => {
                    let pj = self.pat(owner, tr, l.pat);
                    let init = l.init.map(|e| self.expr(owner, tr, e)).unwrap_or(J::Null);
                    let els = l.els.map(|b| self.block(owner, tr, b)).unwrap_or(J::Null);
                    let lj = self.loc(s.span);
                    stmts.push(J::Obj(vec![("s", J::s("let")), ("pat", pj), ("init", init), ("else", els), ("l", lj)]));
                }
                hir::StmtKind::Item(_) => {
                    stmts.push(J::Obj(vec![("s", J::s("item"))]));
                }
                hir::StmtKind::Expr(e) => {
                    let ej = self.expr(owner, tr, e);
                    stmts.push(J::Obj(vec![("s", J::s("expr")), ("e", ej)]));
                }
                hir::StmtKind::Semi(e) => {
                    let ej = self.expr(owner, tr, e);
                    stmts.push(J::Obj(vec![("s", J::s("semi")), ("e", ej)]));
                }
            }
        }
        let tail = b.expr.map(|e| self.expr(owner, tr, e)).unwrap_or(J::Null);
        let unsafe_ = matches!(b.rules, hir::BlockCheckMode::UnsafeBlock(_));
        J::Obj(vec![
            ("stmts", J::Arr(stmts)),
            ("tail", tail),
            ("unsafe", if unsafe_ { J::Bool(true) } else { J::Null }),
        ])
    }

    fn expr(&mut self, owner: LocalDefId, tr: &TypeckResults<'tcx>, e: &hir::Expr<'tcx>) -> J {
        let t = self.ty(tr.expr_ty(e));
        let l = self.loc(e.span);
        let mut o: Vec<(&'static str, J)> = vec![("t", t), ("l", l)];
        let adj = tr.expr_adjustments(e);
        if !adj.is_empty() {
            let v: Vec<J> = adj
                .iter()
                .map(|a| {
                    J::s(match &a.kind {
                        ty::adjustment::Adjust::Deref(_) => "deref".to_string(),
                        ty::adjustment::Adjust::Borrow(_) => "borrow".to_string(),
                        ty::adjustment::Adjust::NeverToAny => "never".to_string(),
                        ty::adjustment::Adjust::Pointer(p) => format!("ptr:{:?}", p),
                        _ => "other".to_string(),
                    })
                })
                .collect();
            o.push(("adj", J::Arr(v)));
            let at = self.ty(tr.expr_ty_adjusted(e));
            o.push(("at", at));
        }
        match &e.kind {
            hir::ExprKind::Lit(lit) => {
                o.push(("k", J::s("lit")));
                o.push(("lit", lit_json(lit)));
            }
            hir::ExprKind::Path(qp) => {
                o.push(("k", J::s("path")));
                let q = self.qpath(owner, tr, qp, e.hir_id);
                o.push(("res", q));
            }
            hir::ExprKind::Call(f, args) => {
                o.push(("k", J::s("call")));
                let fj = self.expr(owner, tr, f);
                o.push(("f", fj));
                let aj: Vec<J> = args.iter().map(|a| self.expr(owner, tr, a)).collect();
                o.push(("args", J::Arr(aj)));
                // overloaded call (Fn traits)
                if let Some(did) = tr.type_dependent_def_id(e.hir_id) {
                    let c = self.callee(owner, did, tr.node_args_opt(e.hir_id));
                    o.push(("overload", c));
                }
            }
            hir::ExprKind::MethodCall(seg, recv, args, _) => {
                o.push(("k", J::s("mcall")));
                o.push(("m", J::s(seg.ident.name.as_str())));
                let rj = self.expr(owner, tr, recv);
                o.push(("recv", rj));
                let aj: Vec<J> = args.iter().map(|a| self.expr(owner, tr, a)).collect();
                o.push(("args", J::Arr(aj)));
                if let Some(did) = tr.type_dependent_def_id(e.hir_id) {
                    let c = self.callee(owner, did, tr.node_args_opt(e.hir_id));
                    o.push(("callee", c));
                }
            }
            hir::ExprKind::Binary(op, a, b) => {
                o.push(("k", J::s("bin")));
                o.push(("op", J::s(op.node.as_str())));
                let aj = self.expr(owner, tr, a);
                let bj = self.expr(owner, tr, b);
                o.push(("a", aj));
                o.push(("b", bj));
                if let Some(did) = tr.type_dependent_def_id(e.hir_id) {
                    let c = self.callee(owner, did, tr.node_args_opt(e.hir_id));
                    o.push(("callee", c));
                }
            }
            hir::ExprKind::Unary(op, a) => {
                o.push(("k", J::s("un")));
                o.push(("op", J::s(match op {
                    hir::UnOp::Deref => "deref",
                    hir::UnOp::Not => "!",
                    hir::UnOp::Neg => "-",
                })));
                let aj = self.expr(owner, tr, a);
                o.push(("a", aj));
                if let Some(did) = tr.type_dependent_def_id(e.hir_id) {
                    let c = self.callee(owner, did, tr.node_args_opt(e.hir_id));
                    o.push(("callee", c));
                }
            }
            hir::ExprKind::AssignOp(op, a, b) => {
                o.push(("k", J::s("assignop")));
                o.push(("op", J::s(op.node.as_str())));
                let aj = self.expr(owner, tr, a);
                let bj = self.expr(owner, tr, b);
                o.push(("a", aj));
                o.push(("b", bj));
                if let Some(did) = tr.type_dependent_def_id(e.hir_id) {
                    let c = self.callee(owner, did, tr.node_args_opt(e.hir_id));
                    o.push(("callee", c));
                }
            }
            hir::ExprKind::Assign(a, b, _) => {
                o.push(("k", J::s("assign")));
                let aj = self.expr(owner, tr, a);
                let bj = self.expr(owner, tr, b);
                o.push(("a", aj));
                o.push(("b", bj));
            }
            hir::ExprKind::Index(a, b, _) => {
                o.push(("k", J::s("index")));
                let aj = self.expr(owner, tr, a);
                let bj = self.expr(owner, tr, b);
                o.push(("a", aj));
                o.push(("b", bj));
                if let Some(did) = tr.type_dependent_def_id(e.hir_id) {
                    let c = self.callee(owner, did, tr.node_args_opt(e.hir_id));
                    o.push(("callee", c));
                }
            }
            hir::ExprKind::Field(a, ident) => {
                o.push(("k", J::s("field")));
                o.push(("name", J::s(ident.name.as_str())));
                let aj = self.expr(owner, tr, a);
                o.push(("a", aj));
            }
            hir::ExprKind::Tup(es) => {
                o.push(("k", J::s("tup")));
                let v: Vec<J> = es.iter().map(|x| self.expr(owner, tr, x)).collect();
                o.push(("es", J::Arr(v)));
            }
            hir::ExprKind::Array(es) => {
                o.push(("k", J::s("array")));
                let v: Vec<J> = es.iter().map(|x| self.expr(owner, tr, x)).collect();
                o.push(("es", J::Arr(v)));
            }
            hir::ExprKind::Repeat(x, _) => {
                o.push(("k", J::s("repeat")));
                let xj = self.expr(owner, tr, x);
                o.push(("a", xj));
            }
            hir::ExprKind::Cast(a, _) | hir::ExprKind::Type(a, _) => {
                o.push(("k", J::s("cast")));
                let aj = self.expr(owner, tr, a);
                o.push(("a", aj));
            }
            hir::ExprKind::DropTemps(a) | hir::ExprKind::Use(a, _) => {
                // transparent
                return self.expr(owner, tr, a);
            }
            hir::ExprKind::Let(le) => {
                o.push(("k", J::s("let")));
                let pj = self.pat(owner, tr, le.pat);
                let ij = self.expr(owner, tr, le.init);
                o.push(("pat", pj));
                o.push(("init", ij));
            }
            hir::ExprKind::If(c, t, f) => {
                o.push(("k", J::s("if")));
                let cj = self.expr(owner, tr, c);
                let tj = self.expr(owner, tr, t);
                let fj = f.map(|x| self.expr(owner, tr, x)).unwrap_or(J::Null);
                o.push(("c", cj));
                o.push(("then", tj));
                o.push(("else", fj));
            }
            hir::ExprKind::Loop(b, _, src, _) => {
                o.push(("k", J::s("loop")));
                o.push(("src", J::s(format!("{:?}", src))));
                let bj = self.block(owner, tr, b);
                o.push(("body", bj));
            }
            hir::ExprKind::Match(s, arms, src) => {
                o.push(("k", J::s("match")));
                o.push(("src", J::s(format!("{:?}", src).split('(').next().unwrap_or("").to_string())));
                let sj = self.expr(owner, tr, s);
                o.push(("scrut", sj));
                let mut av = vec![];
                for a in arms.iter() {
                    let pj = self.pat(owner, tr, a.pat);
                    let gj = a.guard.map(|g| self.expr(owner, tr, g)).unwrap_or(J::Null);
                    let bj = self.expr(owner, tr, a.body);
                    av.push(J::Obj(vec![("pat", pj), ("guard", gj), ("body", bj)]));
                }
                o.push(("arms", J::Arr(av)));
            }
            hir::ExprKind::Closure(c) => {
                o.push(("k", J::s("closure")));
                o.push(("did", J::s(did_str(c.def_id.to_def_id()))));
                o.push(("move", J::Bool(matches!(c.capture_clause, hir::CaptureBy::Value { .. }))));
                let body = self.tcx.hir_body(c.body);
                let ps: Vec<J> = body.params.iter().map(|p| self.pat(owner, tr, p.pat)).collect();
                o.push(("params", J::Arr(ps)));
                let bj = self.expr(owner, tr, body.value);
                o.push(("body", bj));
            }
            hir::ExprKind::Block(b, _) => {
                o.push(("k", J::s("block")));
                let bj = self.block(owner, tr, b);
                o.push(("b", bj));
            }
            hir::ExprKind::AddrOf(_, m, a) => {
                o.push(("k", J::s("addr")));
                o.push(("mut", J::Bool(m.is_mut())));
                let aj = self.expr(owner, tr, a);
                o.push(("a", aj));
            }
            hir::ExprKind::Break(_, v) => {
                o.push(("k", J::s("break")));
                let vj = v.map(|x| self.expr(owner, tr, x)).unwrap_or(J::Null);
                o.push(("a", vj));
            }
            hir::ExprKind::Continue(_) => {
                o.push(("k", J::s("continue")));
            }
            hir::ExprKind::Ret(v) => {
                o.push(("k", J::s("ret")));
                let vj = v.map(|x| self.expr(owner, tr, x)).unwrap_or(J::Null);
                o.push(("a", vj));
            }
            hir::ExprKind::Struct(qp, fields, tail) => {
                o.push(("k", J::s("struct")));
                let q = self.qpath(owner, tr, qp, e.hir_id);
                o.push(("path", q));
                let mut fs = vec![];
                for f in fields.iter() {
                    let ej = self.expr(owner, tr, f.expr);
                    fs.push(J::Obj(vec![
                        ("name", J::s(f.ident.name.as_str())),
                        ("ix", J::Int(tr.field_index(f.hir_id).as_u32() as i64)),
                        ("e", ej),
                    ]));
                }
                o.push(("fields", J::Arr(fs)));
                if let hir::StructTailExpr::Base(b) = tail {
                    let bj = self.expr(owner, tr, b);
                    o.push(("base", bj));
                }
            }
            hir::ExprKind::ConstBlock(_) => {
                o.push(("k", J::s("constblock")));
            }
            other => {
                o.push(("k", J::s("other")));
                o.push(("s", J::s(format!("{:?}", std::mem::discriminant(other)))));
            }
        }
        J::Obj(o)
    }
}

fn lit_json(lit: &hir::Lit) -> J {
    use rustc_ast::LitKind;
    match &lit.node {
        LitKind::Str(s, _) => J::Obj(vec![("k", J::s("str")), ("v", J::s(s.as_str()))]),
        LitKind::Int(v, _) => J::Obj(vec![("k", J::s("int")), ("v", J::s(format!("{}", v.get())))]),
        LitKind::Float(s, _) => J::Obj(vec![("k", J::s("float")), ("v", J::s(s.as_str()))]),
        LitKind::Bool(b) => J::Obj(vec![("k", J::s("bool")), ("v", J::Bool(*b))]),
        LitKind::Char(c) => J::Obj(vec![("k", J::s("char")), ("v", J::s(c.to_string()))]),
        other => J::Obj(vec![("k", J::s("other")), ("v", J::s(format!("{:?}", other)))]),
    }
}

fn attrs_json(tcx: TyCtxt<'_>, id: hir::HirId) -> J {
    let mut v = vec![];
    for a in tcx.hir_attrs(id) {
        v.push(J::s(rustc_hir_pretty_attr(a)));
    }
    J::Arr(v)
}

fn rustc_hir_pretty_attr(a: &hir::Attribute) -> String {
    // Debug rendering is stable enough for name/token matching (e.g. serde(skip)).
    let s = format!("{:?}", a);
    if s.len() > 600 { s[..600].to_string() } else { s }
}

pub fn export<'tcx>(tcx: TyCtxt<'tcx>, fmt: J) {
    let mut cx = Cx { tcx, types: vec![], type_ix: HashMap::new(), locs: vec![], loc_ix: HashMap::new() };
    let mut bodies = vec![];
    let mut n_bodies = 0i64;
    for owner in tcx.hir_body_owners() {
        n_bodies += 1;
        let did = owner.to_def_id();
        if tcx.is_typeck_child(did) {
            // closures / inline consts are exported inline within their parent
            continue;
        }
        let kind = tcx.def_kind(did);
        let tr = tcx.typeck(owner);
        if tr.tainted_by_errors.is_some() {
            continue;
        }
        let body = tcx.hir_body_owned_by(owner);
        let mut o: Vec<(&'static str, J)> = vec![
            ("did", J::s(did_str(did))),
            ("path", J::s(tcx.def_path_str(did))),
            ("dk", J::s(format!("{:?}", kind))),
            ("name", J::opt_s(tcx.opt_item_name(did).map(|s| s.to_string()))),
        ];
        let sp = tcx.def_span(did);
        o.push(("l", cx.loc(sp)));
        o.push(("attrs", attrs_json(tcx, tcx.local_def_id_to_hir_id(owner))));
        if let Some(assoc) = tcx.opt_associated_item(did) {
            let cont = assoc.container_id(tcx);
            match tcx.def_kind(cont) {
                DefKind::Trait => o.push(("in_trait", J::s(tcx.def_path_str(cont)))),
                DefKind::Impl { .. } => o.push(("in_impl", J::s(did_str(cont)))),
                _ => {}
            }
        }
        if matches!(kind, DefKind::Fn | DefKind::AssocFn) {
            let sig = tcx.fn_sig(did).instantiate_identity().skip_norm_wip().skip_binder();
            let env = ty::TypingEnv::post_analysis(tcx, did);
            let norm = |t: Ty<'tcx>| -> Ty<'tcx> {
                tcx.try_normalize_erasing_regions(env, ty::Unnormalized::new_wip(t)).unwrap_or(t)
            };
            let ins: Vec<J> = sig.inputs().iter().map(|t| cx.ty(norm(*t))).collect();
            o.push(("sig_in", J::Arr(ins)));
            let out = cx.ty(norm(sig.output()));
            o.push(("sig_out", out));
            o.push(("unsafe_fn", J::Bool(sig.safety().is_unsafe())));
            let g = tcx.generics_of(did);
            let gn: Vec<J> = g.own_params.iter().map(|p| J::s(p.name.as_str())).collect();
            o.push(("generics", J::Arr(gn)));
            o.push(("vis", J::s(format!("{:?}", tcx.visibility(did)))));
        }
        let ps: Vec<J> = body.params.iter().map(|p| cx.pat(owner, tr, p.pat)).collect();
        o.push(("params", J::Arr(ps)));
        let bj = cx.expr(owner, tr, body.value);
        o.push(("body", bj));
        bodies.push(J::Obj(o));
    }

    // items: adts, impls, traits, aliases
    let mut adts = vec![];
    let mut impls = vec![];
    let mut traits = vec![];
    let mut aliases = vec![];
    let mut uses = 0i64;
    for id in tcx.hir_free_items() {
        let item = tcx.hir_item(id);
        let did = item.owner_id.to_def_id();
        match &item.kind {
            hir::ItemKind::Struct(_, _, vd) => {
                let adt = tcx.adt_def(did);
                let mut fields = vec![];
                for (i, f) in vd.fields().iter().enumerate() {
                    let fd = &adt.non_enum_variant().fields[rustc_abi_field(i)];
                    let fty = tcx.type_of(fd.did).instantiate_identity().skip_norm_wip();
                    let tj = cx.ty(fty);
                    fields.push(J::Obj(vec![
                        ("name", J::s(f.ident.name.as_str())),
                        ("t", tj),
                        ("vis", J::s(format!("{:?}", tcx.visibility(fd.did)))),
                        ("attrs", attrs_json(tcx, f.hir_id)),
                    ]));
                }
                let lj = cx.loc(item.span);
                adts.push(J::Obj(vec![
                    ("did", J::s(did_str(did))),
                    ("path", J::s(tcx.def_path_str(did))),
                    ("name", J::opt_s(tcx.opt_item_name(did).map(|s| s.to_string()))),
                    ("fields", J::Arr(fields)),
                    ("attrs", attrs_json(tcx, item.hir_id())),
                    ("generics", J::Arr(tcx.generics_of(did).own_params.iter().map(|p| J::s(p.name.as_str())).collect())),
                    ("l", lj),
                ]));
            }
            hir::ItemKind::Impl(imp) => {
                let st = tcx.type_of(did).instantiate_identity().skip_norm_wip();
                let stj = cx.ty(st);
                let mut o: Vec<(&'static str, J)> = vec![
                    ("did", J::s(did_str(did))),
                    ("self", stj),
                ];
                if let Some(trf) = tcx.impl_opt_trait_ref(did) {
                    let trf = trf.instantiate_identity().skip_norm_wip();
                    o.push(("trait", J::s(tcx.def_path_str(trf.def_id))));
                    let a = cx.gargs(trf.args);
                    o.push(("trait_args", a));
                    o.push(("trait_s", J::s(format!("{:?}", trf))));
                }
                let mut items = vec![];
                for it in imp.items.iter() {
                    let idid = it.owner_id.to_def_id();
                    items.push(J::Obj(vec![
                        ("name", J::opt_s(tcx.opt_item_name(idid).map(|s| s.to_string()))),
                        ("did", J::s(did_str(idid))),
                        ("dk", J::s(format!("{:?}", tcx.def_kind(idid)))),
                    ]));
                }
                o.push(("items", J::Arr(items)));
                o.push(("generics", J::Arr(tcx.generics_of(did).own_params.iter().map(|p| J::s(p.name.as_str())).collect())),);
                let preds: Vec<J> = tcx
                    .predicates_of(did)
                    .predicates
                    .iter()
                    .map(|(p, _)| J::s(format!("{}", p)))
                    .collect();
                o.push(("preds", J::Arr(preds)));
                o.push(("attrs", attrs_json(tcx, item.hir_id())));
                let lj = cx.loc(item.span);
                o.push(("l", lj));
                impls.push(J::Obj(o));
            }
            hir::ItemKind::Trait { .. } => {
                let mut items = vec![];
                for assoc in tcx.associated_items(did).in_definition_order() {
                    items.push(J::Obj(vec![
                        ("name", J::s(assoc.name().as_str())),
                        ("did", J::s(did_str(assoc.def_id))),
                        ("kind", J::s(format!("{:?}", assoc.kind).split(|c| c == ' ' || c == '{' || c == '(').next().unwrap_or("").to_string())),
                        ("default", J::Bool(assoc.defaultness(tcx).has_value())),
                    ]));
                }
                let supers: Vec<J> = tcx
                    .explicit_super_predicates_of(did)
                    .iter_identity_copied()
                    .map(|u| J::s(format!("{}", u.skip_norm_wip().0)))
                    .collect();
                traits.push(J::Obj(vec![
                    ("did", J::s(did_str(did))),
                    ("path", J::s(tcx.def_path_str(did))),
                    ("items", J::Arr(items)),
                    ("supers", J::Arr(supers)),
                ]));
            }
            hir::ItemKind::TyAlias(..) => {
                let t = tcx.type_of(did).instantiate_identity().skip_norm_wip();
                let tj = cx.ty(t);
                aliases.push(J::Obj(vec![
                    ("path", J::s(tcx.def_path_str(did))),
                    ("name", J::opt_s(tcx.opt_item_name(did).map(|s| s.to_string()))),
                    ("t", tj),
                    ("vis", J::s(format!("{:?}", tcx.visibility(did)))),
                    ("generics", J::Arr(tcx.generics_of(did).own_params.iter().map(|p| J::s(p.name.as_str())).collect())),
                ]));
            }
            hir::ItemKind::Use(..) => uses += 1,
            _ => {}
        }
    }

    let features: Vec<J> = tcx
        .sess
        .config
        .iter()
        .map(|(k, v)| J::s(format!("{}={}", k, v.map(|s| s.to_string()).unwrap_or_default())))
        .collect();

    let root = J::Obj(vec![
        ("crate", J::s(tcx.crate_name(rustc_span::def_id::LOCAL_CRATE).as_str())),
        ("nonce", J::s(std::env::var("NDV_NONCE").unwrap_or_default())),
        ("cfg", J::Arr(features)),
        ("n_body_owners", J::Int(n_bodies)),
        ("n_use_items", J::Int(uses)),
        ("types", J::Arr(std::mem::take(&mut cx.types))),
        ("locs", J::Arr(std::mem::take(&mut cx.locs))),
        ("bodies", J::Arr(bodies)),
        ("adts", J::Arr(adts)),
        ("impls", J::Arr(impls)),
        ("traits", J::Arr(traits)),
        ("aliases", J::Arr(aliases)),
        ("fmt", fmt),
    ]);
    let mut s = String::with_capacity(1 << 24);
    root.write(&mut s);
    let dir = std::env::var("NDV_FACTS_DIR").unwrap();
    let tag = std::env::var("NDV_TAG").unwrap_or_else(|_| "default".to_string());
    let path = format!("{}/{}.json", dir, tag);
    let tmp = format!("{}.tmp.{}", path, std::process::id());
    if std::fs::write(&tmp, s).is_ok() {
        let _ = std::fs::rename(&tmp, &path);
    }
}

fn rustc_abi_field(i: usize) -> rustc_abi::FieldIdx {
    rustc_abi::FieldIdx::from_usize(i)
}
